package larking

// Demonstration for the C13 finding "streamGRPC.RecvMsg reads the pooled scratch buffer after it put it
// back" (run with -race through an overlay, see README in this directory). Several goroutines receive gzip
// frames that inflate beyond the receive limit (the path that puts the buffer back and then calls buf.Len()
// for the error text) while others receive ordinary gzip frames (Get, Reset, write into the same pool).
import (
	"bytes"
	"compress/gzip"
	"context"
	"strings"
	"sync"
	"testing"

	"google.golang.org/protobuf/proto"
	"larking.io/api/testpb"
)

func TestVerifScratchBufferRace(t *testing.T) {
	big, _ := proto.Marshal(&testpb.Message{Text: strings.Repeat("a", 1000)})
	small, _ := proto.Marshal(&testpb.Message{Text: strings.Repeat("b", 50)})
	gz := func(b []byte) []byte {
		var out bytes.Buffer
		zw := gzip.NewWriter(&out)
		zw.Write(b)
		zw.Close()
		return out.Bytes()
	}
	gzBig, gzSmall := gz(big), gz(small)
	comp := &CompressorGzip{}
	var wg sync.WaitGroup
	for g := 0; g < 8; g++ {
		wg.Add(1)
		go func(g int) {
			defer wg.Done()
			for i := 0; i < 3000; i++ {
				payload, limit := gzBig, 100
				if g%2 == 1 {
					payload, limit = gzSmall, 1<<20
				}
				s := &streamGRPC{ctx: context.Background(), opts: muxOptions{maxReceiveMessageSize: limit}, codec: CodecProto{}, comp: comp, messageEncoding: "gzip",
					r: bytes.NewReader(verifFrame(1, payload, len(payload)))}
				s.RecvMsg(&testpb.Message{})
			}
		}(g)
	}
	wg.Wait()
}
