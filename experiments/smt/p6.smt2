; encodeGrpcMessage: loop invariant preservation (escape branch) + exit postcondition, with recursive EL as UF + unfolding instances
(set-option :produce-models true)
(declare-fun msg () (Array Int Int)) (declare-fun mlen () Int) (assert (>= mlen 0))
(assert (forall ((k Int)) (! (and (<= 0 (select msg k)) (<= (select msg k) 255)) :pattern ((select msg k)))))
(define-fun esc ((c Int)) Bool (or (< c 32) (> c 126) (= c 37)))
(declare-fun EL (Int) Int)
(define-fun defEL ((k Int)) Bool (= (EL k) (ite (<= k 0) 0 (+ (EL (- k 1)) (ite (esc (select msg (- k 1))) 3 1)))))
; loop head state
(declare-fun i () Int) (declare-fun pos () Int) (declare-fun olen () Int) (declare-fun out () (Array Int Int))
; Inv: 0<=pos<=i<=mlen ; forall j in [pos,i]: EL(j) = olen + (j-pos) ; (content clause omitted here: lengths only)
(define-fun Inv ((i Int) (pos Int) (olen Int)) Bool (and (<= 0 pos) (<= pos i) (<= i mlen)
   (forall ((j Int)) (! (=> (and (<= pos j) (<= j i)) (= (EL j) (+ olen (- j pos)))) :pattern ((EL j))))))
(assert (Inv i pos olen))
(assert (< i mlen))
(define-fun c () Int (select msg i))
(assert (defEL (+ i 1)))
; branch: escape -> WriteString(msg[pos:i]) ; WriteString(3 bytes) ; pos = i+1 ; i++
(define-fun olenE () Int (+ olen (- i pos) 3))
; branch: no escape -> i++
(declare-fun jj () Int)
(assert (defEL jj))
(assert (not (and
   (=> (esc c)       (and (<= 0 (+ i 1)) (<= (+ i 1) mlen) (=> (and (<= (+ i 1) jj) (<= jj (+ i 1))) (= (EL jj) (+ olenE (- jj (+ i 1)))))))
   (=> (not (esc c)) (=> (and (<= pos jj) (<= jj (+ i 1))) (= (EL jj) (+ olen (- jj pos))))))))
(check-sat)
