; encodeGrpcMessage exit: current code returns sb.String() when pos != 0 -> post len(result) == EL(mlen) must hold; expect SAT (tail dropped)
(set-option :produce-models true)
(declare-fun msg () (Array Int Int)) (declare-fun mlen () Int) (assert (>= mlen 0))
(define-fun esc ((c Int)) Bool (or (< c 32) (> c 126) (= c 37)))
(declare-fun EL (Int) Int)
(declare-fun i () Int) (declare-fun pos () Int) (declare-fun olen () Int)
(assert (and (<= 0 pos) (<= pos i) (<= i mlen)
   (forall ((j Int)) (! (=> (and (<= pos j) (<= j i)) (= (EL j) (+ olen (- j pos)))) :pattern ((EL j))))))
(assert (not (< i mlen)))          ; loop exit
(assert (not (= pos 0)))           ; second return
(assert (not (= olen (EL mlen))))  ; negated post
(check-sat)
(get-value (mlen i pos olen (EL mlen)))
