(set-option :produce-models true)
(declare-sort Ref 0)
(declare-fun S () (Array Int Int))                       ; ghost: whole stream
(declare-fun EOFerr () Int) (declare-fun nilerr () Int) (assert (= nilerr 0)) (assert (not (= EOFerr 0)))
; ---- entry state (parameters)
(declare-fun mem_in () (Array Ref (Array Int Int)))
(declare-fun b0_base () Ref) (declare-fun b0_off () Int) (declare-fun b0_len () Int) (declare-fun b0_cap () Int)
(declare-fun limit () Int) (declare-fun rpos_in () Int)
(assert (and (<= 0 b0_off) (<= 0 b0_len) (<= b0_len b0_cap)))
(assert (> limit 0))
(define-fun g0 () Int (- rpos_in b0_len))
(define-fun Buffered ((mem (Array Ref (Array Int Int))) (base Ref) (off Int) (len Int) (g Int) (rpos Int)) Bool
  (and (= (+ g len) rpos)
       (forall ((k Int)) (! (=> (and (<= 0 k) (< k len)) (= (select (select mem base) (+ off k)) (select S (+ g k)))) :pattern ((select (select mem base) (+ off k)))))))
(assert (Buffered mem_in b0_base b0_off b0_len g0 rpos_in))      ; requires
; ---- loop head state (havoc of assigned: b, total, mem, rpos) + invariant
(declare-fun mem1 () (Array Ref (Array Int Int)))
(declare-fun b_base () Ref) (declare-fun b_off () Int) (declare-fun b_len () Int) (declare-fun b_cap () Int)
(declare-fun total () Int) (declare-fun rpos1 () Int)
(define-fun Inv ((mem (Array Ref (Array Int Int))) (base Ref) (off Int) (len Int) (cap Int) (tot Int) (rpos Int)) Bool
  (and (<= 0 off) (<= 0 len) (<= len cap) (Buffered mem base off len g0 rpos)
       (<= 0 tot) (< tot limit) (<= tot (- rpos rpos_in))))
; ---- one iteration body, passive form
; block 2 (grow) taken iff len == cap
(define-fun grow () Bool (= b_len b_cap))
(declare-fun nb_base () Ref) (declare-fun nb_cap () Int) (declare-fun fresh () (Array Int Int))
(declare-fun mem2 () (Array Ref (Array Int Int)))
(declare-fun b2_base () Ref) (declare-fun b2_off () Int) (declare-fun b2_cap () Int)
; append(b, 0) with len==cap -> must reallocate: fresh base, cap' > len, content copied, elem len = 0
(assert (=> grow (and (not (= nb_base b_base)) (> nb_cap b_len)
   (= mem2 (store mem1 nb_base (lambda ((k Int)) (ite (and (<= 0 k) (< k b_len)) (select (select mem1 b_base) (+ b_off k)) (ite (= k b_len) 0 (select fresh k))))))
   (= b2_base nb_base) (= b2_off 0) (= b2_cap nb_cap))))
(assert (=> (not grow) (and (= mem2 mem1) (= b2_base b_base) (= b2_off b_off) (= b2_cap b_cap))))
; Read(b[len:cap])
(declare-fun n () Int) (declare-fun err () Int) (declare-fun rpos2 () Int) (declare-fun mem3 () (Array Ref (Array Int Int)))
(define-fun plen () Int (- b2_cap b_len))
(assert (and (<= 0 n) (<= n plen) (= rpos2 (+ rpos1 n))))
(assert (= mem3 (store mem2 b2_base (lambda ((k Int)) (ite (and (<= (+ b2_off b_len) k) (< k (+ b2_off b_len n))) (select S (+ rpos1 (- k (+ b2_off b_len)))) (select (select mem2 b2_base) k))))))
(assert (=> (and (> plen 0) (= err nilerr)) (> n 0)))           ; ReaderProgress (termination only)
(define-fun b3_len () Int (+ b_len n))
(define-fun total2 () Int (+ total n))
(define-fun total3 () Int (ite (> total2 limit) limit total2))
(define-fun exits () Bool (or (not (= err nilerr)) (= total3 limit)))
(assert (Inv mem1 b_base b_off b_len b_cap total rpos1))
(assert exits) (assert (not (=> (= err nilerr) (= total3 limit))))
(check-sat)

