; Prototype: one iteration of the fill loop in CodecProto.ReadNext preserves the
; stream-coordinate invariant Inv(b,g): forall k<len(b). mem[b.base][b.off+k] = S[g+k]  and g+len(b) = rpos
(set-option :produce-models true)
(declare-sort Ref 0)
(declare-fun S () (Array Int Int))           ; the whole byte stream (ghost)
(declare-fun mem0 () (Array Ref (Array Int Int)))
(declare-fun base0 () Ref) (declare-fun off0 () Int) (declare-fun len0 () Int) (declare-fun cap0 () Int)
(declare-fun g () Int) (declare-fun rpos0 () Int)
; slice wf
(assert (and (<= 0 off0) (<= 0 len0) (<= len0 cap0)))
; Inv at loop head
(assert (forall ((k Int)) (=> (and (<= 0 k) (< k len0)) (= (select (select mem0 base0) (+ off0 k)) (select S (+ g k))))))
(assert (= (+ g len0) rpos0))
; --- branch A: len == cap -> append(b,0)[:len(b)] reallocates (fresh base1, cap1 > len0), content copied
(declare-fun base1 () Ref) (declare-fun cap1 () Int) (declare-fun grew () Bool)
(declare-fun mem1 () (Array Ref (Array Int Int)))
(declare-fun fresharr () (Array Int Int))
(assert (=> grew (and (= len0 cap0) (not (= base1 base0)) (> cap1 len0)
   (= mem1 (store mem0 base1 (lambda ((k Int)) (ite (and (<= 0 k) (< k len0)) (select (select mem0 base0) (+ off0 k)) (ite (= k len0) 0 (select fresharr k)))))))))
(declare-fun off1 () Int)
(assert (=> grew (= off1 0)))
(assert (=> (not grew) (and (< len0 cap0) (= base1 base0) (= cap1 cap0) (= mem1 mem0) (= off1 off0))))
; --- Read(p) with p = b[len:cap] : p.base=base1, p.off=off1+len0, p.len=cap1-len0
(declare-fun n () Int) (declare-fun rpos1 () Int)
(declare-fun mem2 () (Array Ref (Array Int Int)))
(assert (and (<= 0 n) (<= n (- cap1 len0))))
(assert (= rpos1 (+ rpos0 n)))
(assert (= mem2 (store mem1 base1 (lambda ((k Int)) (ite (and (<= (+ off1 len0) k) (< k (+ off1 len0 n))) (select S (+ rpos0 (- k (+ off1 len0)))) (select (select mem1 base1) k))))))
; b = b[:len+n]
(declare-fun len2 () Int) (assert (= len2 (+ len0 n)))
; negated goal: Inv(b2, g)
(declare-fun kk () Int)
(assert (not (and (= (+ g len2) rpos1)
   (=> (and (<= 0 kk) (< kk len2)) (= (select (select mem2 base1) (+ off1 kk)) (select S (+ g kk)))))))
(check-sat)
