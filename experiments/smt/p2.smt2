; variable.index, one loop iteration in case tokenStarStar / tokenStar, with Wf(toks) and callee contract of tokens.index / indexAny
(set-option :produce-models true)
(declare-fun typ () (Array Int Int))     ; toks[k].typ
(declare-fun n () Int)                   ; len(toks)
(define-fun SLASH () Int 2) (define-fun VERB () Int 1024) (define-fun PATH () Int 2048) (define-fun EOFT () Int 4096)
; Wf(toks): n>=2, n even, even idx = PATH, odd idx (not last) in {SLASH,VERB}, last = EOF
(assert (and (>= n 2) (= (mod n 2) 0) (= (select typ (- n 1)) EOFT)))
(assert (forall ((k Int)) (=> (and (<= 0 k) (< k n) (= (mod k 2) 0)) (= (select typ k) PATH))))
(assert (forall ((k Int)) (=> (and (<= 0 k) (< k (- n 1)) (= (mod k 2) 1)) (or (= (select typ k) SLASH) (= (select typ k) VERB)))))
; loop-head state: 0<=i<n, i even (at a segment start)
(declare-fun i () Int)
(assert (and (<= 0 i) (< i n) (= (mod i 2) 0)))
; callee contract: j = toks.index(VERB): -1 and none, or first occurrence
(declare-fun j () Int)
(assert (or (and (= j (- 1)) (forall ((k Int)) (=> (and (<= 0 k) (< k n)) (not (= (select typ k) VERB)))))
            (and (<= 0 j) (< j n) (= (select typ j) VERB) (forall ((k Int)) (=> (and (<= 0 k) (< k j)) (not (= (select typ k) VERB)))))))
; code: i2 = (j != -1) ? i + j : n
(define-fun i2 () Int (ite (not (= j (- 1))) (+ i j) n))
; spec StepStarStar(i,i2): i<=i2<=n, no VERB/EOF strictly inside [i,i2) except EOF swallowed only when i2=n ; i2==n or typ[i2]==VERB
(define-fun spec () Bool (and (<= i i2) (<= i2 n)
   (or (= i2 n) (= (select typ i2) VERB))
   (forall ((k Int)) (=> (and (<= i k) (< k i2)) (not (= (select typ k) VERB))))))
(assert (not spec))
(check-sat)
(get-value (n i j i2))
