#!/usr/bin/env python3
"""Runs the must-fail corpus: every mutant must make its named obligation fail, and the
unmodified tree must be clean. Scratch worktree under /root/scratch, removed afterwards."""
import os, subprocess, sys, json, shutil
sys.path.insert(0, os.path.dirname(os.path.abspath(__file__)))
from mutants import MUTANTS

ENV = dict(os.environ, GOFLAGS="-mod=mod", GOPROXY="off", GOSUMDB="off", GOTOOLCHAIN="local")
SCR = "/root/scratch/selftest-wt"
VERIF_OUT = "/root/scratch/selftest-out"

def sh(*a, **k):
    return subprocess.run(a, capture_output=True, text=True, env=ENV, **k)

def main():
    global SCR, VERIF_OUT
    names = set(sys.argv[1:])
    build = "--build" in names
    names.discard("--build")
    # --shard=i/n : run every n-th mutant starting at i, in a scratch tree of its own (parallel runs)
    shard = None
    for a in list(names):
        if a.startswith("--shard="):
            i, n = a[len("--shard="):].split("/")
            shard = (int(i), int(n))
            names.discard(a)
    tag = f"-{shard[0]}of{shard[1]}" if shard else f"-{os.getpid()}"
    SCR, VERIF_OUT = SCR + tag, VERIF_OUT + tag
    os.makedirs("/root/scratch", exist_ok=True)
    sh("git", "-C", "/repo", "worktree", "remove", "--force", SCR)
    r = sh("git", "-C", "/repo", "worktree", "add", "--detach", SCR, "HEAD")
    if r.returncode != 0:
        print(r.stderr); return 2
    # carry uncommitted contract edits into the scratch tree
    shutil.copy("/repo/larking/verif_contracts.go", SCR + "/larking/verif_contracts.go")
    bad = 0
    try:
        for k, m in enumerate(MUTANTS):
            if names and m["name"] not in names:
                continue
            if shard and k % shard[1] != shard[0]:
                continue
            path = os.path.join(SCR, m["file"])
            src = open(path).read()
            if m["old"] not in src:
                print(f"SKIP   {m['name']}: pattern not found (source changed)"); bad += 1; continue
            open(path, "w").write(src.replace(m["old"], m["new"], 1))
            try:
                if build:
                    b = sh("go", "build", "./larking", cwd=SCR)
                    if b.returncode != 0:
                        print(f"NOBUILD {m['name']}: {b.stderr[:300]}"); bad += 1; continue
                shutil.rmtree(VERIF_OUT, ignore_errors=True)
                os.makedirs(VERIF_OUT + "/contracts", exist_ok=True)
                for f in os.listdir("/verif/contracts"):
                    shutil.copy("/verif/contracts/" + f, VERIF_OUT + "/contracts/" + f)
                shutil.copy("/verif/known_findings.json", VERIF_OUT + "/known_findings.json")
                r = sh("/verif/bin/govc", "check", "-repo", SCR, "-verif", VERIF_OUT, "-props", m["prop"], "-noreplay")
                viol = [l for l in r.stdout.splitlines() if l.startswith("VIOLATION")]
                hit = [l for l in viol if ("obligation=" + m["expect"]) in l]
                if hit:
                    print(f"CAUGHT {m['name']}: {len(viol)} violation(s), e.g. {hit[0].split('obligation=')[1][:110]}")
                elif viol:
                    print(f"OTHER  {m['name']}: caught, but not by the expected obligation {m['expect']}: {viol[0].split('obligation=')[1][:110]}")
                else:
                    print(f"MISSED {m['name']} (exit {r.returncode}) {r.stdout[-300:]} {r.stderr[-400:]}"); bad += 1
            finally:
                open(path, "w").write(src)
    finally:
        sh("git", "-C", "/repo", "worktree", "remove", "--force", SCR)
        shutil.rmtree(VERIF_OUT, ignore_errors=True)
    print("selftest:", "FAILED" if bad else "ok", f"({bad} problem(s))")
    return 1 if bad else 0

if __name__ == "__main__":
    sys.exit(main())
