#!/usr/bin/env python3
"""Regenerates /verif/MANIFEST.json from the table below (edit here, not the JSON)."""
import json, os, subprocess

HERE = os.path.dirname(os.path.dirname(os.path.abspath(__file__)))

TECH = "contract-based deductive verification: weakest-precondition VCs generated from go/ssa of /repo's working tree against //@ contracts, discharged by z3 4.8.12 / z3 5.1.0 / cvc5 1.0.3"

TRUST = ("Trusted: the VC generator govc (unverified, guarded by the must-fail selftest corpus), go/ssa+go/types of x/tools v0.29.0, "
         "the SMT solvers, 64-bit machine model with exact wrap-around, assumed library contracts listed in the evidence file "
         "(assumptions / abstracted_calls), deferred calls not executed in the caller's VC. ")

CLAIMED = {
    "C05": dict(
        text=("Proof, for all inputs, of the per-function contracts that carry status fidelity inside larking: HTTPStatusCode and WSStatusCode "
              "are total over every uint32 code and equal the google.rpc.Code mapping table for 0..16 and the internal-error value otherwise "
              "(index obligations and table postconditions discharged); encodeGrpcMessage returns exactly the gRPC PROTOCOL-HTTP2 percent-encoding of "
              "its argument for every string (inductive loop invariant over a recursive encoded-length spec function); encError and the HttpBody codec contain no reachable panic "
              "(they answer with a plain-text fallback when the status cannot be marshalled); serveGRPC has no reachable panic (a status whose details cannot be marshalled is sent without them); "
              "the HTTP status written by encError is the mapped status of the error's code on both the Twirp and the negotiated path; twirpCodeName is exactly the Twirp table for codes 1..16 and never empty, "
              "and encError passes it the status code; the codec picked for the error body is never nil under the registry invariant OffersOk; "
              "the WebSocket close frame carries the mapped close code and, as its reason, the longest prefix of the status message that fits in 123 bytes and ends between two characters."),
        note=TRUST + "Not decided: what grpc-go / Twirp / WebSocket clients decode; OffersOk is a precondition of encError (NewMux offers exactly the registry keys, the JSON default is assumed registered).",
        ref="DESIGN.md section 5 C05"),
}

CLAIMED["C15"] = dict(
    text=("Proof, for all strings, that decodeTimeout accepts exactly the gRPC-legal timeouts (1-8 ASCII digits and a unit in HMSmun), "
          "returns value x unit without overflow (clamped to MaxInt64) and refuses everything else; timeoutUnit is exact; in serveGRPC a request with a grpc-timeout creates exactly one deadline context, "
          "that context is the one carried forward to the handler's stream, a request without the header creates none, and a refused timeout is never followed by the handler."),
    note=TRUST + "strconv.ParseUint is an assumed contract (listed in the evidence). Not decided: that the deadline fires, cancellation propagation, release of blocked Recv/Send (liveness over goroutines); the serveGRPC refusal path is added when its partial contract is discharged.",
    ref="DESIGN.md section 5 C15")

CLAIMED["C01"] = dict(
    text=("Proof of the per-step contracts that carry routing soundness inside larking: the request-path lexer emits a well-formed alternating "
          "separator/segment token sequence (PathToks) for every input string; variable.index implements, per pattern token, exactly the google.api.http "
          "semantics ('/' one slash, LITERAL one equal segment, '*' exactly one segment, '**' everything up to the verb or the end) for every pattern and "
          "token sequence (loop step clauses); path.search slices and indexes safely, takes a variable edge only after a slash token, binds the k-th capture "
          "to the k-th template variable (depth ghost) and terminates; path.match composes them. The well-formedness of variable patterns that the matcher relies on is established by construction: "
          "addRule passes only patterns of the shape segment ('/' segment)* to addVariable (from the template automaton) and a new variable node is created with that pattern and a non-nil subtree; "
          "parseParam's body contains no integer conversion that can change a value (text that does not fit the field's type is left to the typed decoder to reject). tokens.String is proved to be the concatenation of the token texts (length and content), so the text a variable captures is exactly the text of the tokens it covers; Mux.ServeHTTP routes the request path less at most one final slash."),
    note=TRUST + "Assumed, not proved: the trie invariant TrieWf (what addRule builds: well-formed variable patterns, non-nil children, depth bookkeeping), map contents at lookups (assume-at clauses listed in the evidence), parseParam/tokens.String as trusted pure functions, the read-only region of variable pattern arrays, the typed conversions in encoding/json, protojson, base64.",
    ref="DESIGN.md section 5 C01")
CLAIMED["C02"] = dict(
    text=("Partial proof: capture lengths are exact (the step clauses of variable.index are equalities, so every instantiation of a template is matched "
          "by that template's own edges — the obligation that '{name=books/**}:read' violated before the fix), the path lexer accepts every path made of "
          "documented characters within the token limit, and search tries the literal edge before any variable (program order in the verified body). path.search refuses a path only after every variable edge of the node was tried (or a capture failed to convert); findVariable is checked against its body (found by its pattern text); path.clone carries every verb binding, the '*' binding, every literal child and the number of variable edges of the original into the copy, so re-registrations never lose earlier routes."),
    note=TRUST + "Not decided by contracts: equality of whole tries under permutation of registration order, search exhaustion as a recursive statement over the whole subtree (the per-node statement is proved); TrieWf assumed as for C01.",
    ref="DESIGN.md section 5 C02")
CLAIMED["C06"] = dict(
    text=("Proof over the abstract byte stream, for all read schedules: the three stream codecs' ReadNext return buffers that are exactly a window of the "
          "stream (Buffered: nothing lost, duplicated or reordered), frame messages as specified (varint length / brace fold / fixed chunk), never return a partial "
          "message with an error, and report a clean io.EOF only when no message is in progress; WriteNext writes exactly the framed message; readAll conserves the body. "
          "WebSocket: the handler gets io.EOF exactly when the client closed normally (status 1000), an error for every other failed read (a dropped connection included), "
          "and a method bound without a body receives one message and then io.EOF."),
    note=TRUST + "io.Reader/io.Writer/io.ReadFull/protowire are assumed contracts (interface contract of Read: any 0<=n<=len(p) with any error). Not decided: WebSocket framing (gobwas/ws), HTTP/2 transport ordering, gRPC-web base64 flushing, the proxy's goroutines; streamHTTP.readMsg and the gRPC frame reader are added as their contracts are discharged. Since then: streamHTTP.readMsg is proved against the StreamCodec interface contract (which all three codecs refine): message window, carry-over, no phantom message at a clean end, codec errors propagate; the gRPC frame reader/writer have partial contracts (slicing, frame window, truncated frame is an error, pooled buffers empty before use).",
    ref="DESIGN.md section 5 C06")
CLAIMED["C08"] = dict(
    text=("Proof with a symbolic limit: every size check of the stream codecs, readAll and writeAll refuses only messages over the limit and accepts messages exactly at "
          "the limit; a returned message never exceeds the limit; 64-bit length prefixes (up to 2^64-1) cannot bypass the check."),
    note=TRUST + "Also covered: gRPC RecvMsg checks the size after decompression, SendMsg refuses only replies over the send limit, serveGRPC has exactly the seven reviewed refusal sites (no size-based refusal before the handler). The WebSocket stream hands no message over the limit to the decoder (the limit did not exist there: fixed, d1b6f64), the stream is created with the mux's limit and no other function writes it. Not decided: what gobwas/ws buffers before larking sees the message, gzip internals.",
    ref="DESIGN.md section 5 C08")
CLAIMED["C09"] = dict(
    text=("No-panic and termination obligations (index/slice bounds, nil dereference, failed type assertion, explicit panic, negative make, callee preconditions, loop and recursion variants) "
          "discharged for every function under contract on the request paths: status tables, grpc-message encoding, timeout decoding, stream codecs, readAll/writeAll, "
          "lexers, token search, variable.index, path.search/match, fieldPath, params.set, addRule's token walk, the selector walks of decodeRequestArgs / SendMsg / WebSocket Recv/Send / AsHTTPBodyReader/Writer "
          "(a registered method's body and response_body selectors contain only singular message fields, so Mutable(fd).Message() cannot panic), clone, newPath, alive."),
    note=TRUST + "Covers only the functions listed in the evidence (functions_under_contract); panics inside dependencies, goroutine bodies and resource exhaustion are not decided. Reader-loop termination assumes ReaderProgress.",
    ref="DESIGN.md section 5 C09")
CLAIMED["C17"] = dict(
    text=("Proof, with reader schedule, carry-over, capacity, message length and limit all symbolic: CodecProto/CodecJSON/codecHTTPBody ReadNext are fragmentation-invariant "
          "(result stated in stream coordinates only), the bytes after n are exactly the unread remainder (Buffered on the returned buffer), n <= limit, oversize "
          "and >= 2^63 prefixes are errors, and WriteNext emits varint(len) ++ payload (proto) or the payload (JSON, HttpBody)."),
    note=TRUST + "Assumed: io.Reader/io.ReadFull/io.Writer interface contracts, protowire.ConsumeVarint/AppendVarint (round-trip axiom). JSON frame leastness (the first balanced object) is not proved, only that the returned frame ends at a brace returning the depth to 0.",
    ref="DESIGN.md section 5 C17")

CLAIMED["C04"] = dict(
    text=("Partial proof. Negotiation, for every Accept header and offer list: the negotiated content type is the untouched default or is admitted (exact, type/*, */*) by a range of the parsed "
          "Accept header with positive weight, and whenever some offer is admitted by such a range the default is not returned (both directions, loop invariants over all offer/range pairs); "
          "parsed weights are never negative; a header element list is abandoned only at its end or at a non-space character (optional white space around ',' hides nothing); "
          "the result is always one of the offers or the default; NewMux offers only registry keys. streamHTTP.writeMsg sets Content-Type before the first message whether or not headers were already sent. "
          "A response_body selector is resolved in the reply message type from rule.ResponseBody and every element is a singular message field (so applying it to a reply cannot panic); "
          "writeAll refuses a unary reply iff it exceeds the send limit. The Content-Encoding announced for a reply is the negotiated one and only when its compressor exists; "
          "'identity' is announced for an error reply only after the pending compressor has been dropped (so no compressor bytes follow the error document); the Content-Type set is the reply's own."),
    note=TRUST + "Floats are reals. Not decided: that the body decodes to the reply (codec round trip inside protobuf-go), HttpBody passthrough bytes, gzip bytes and pooled gzip writers, the RFC 7231 preference order among admissible offers, that parseAccept's ranges are the header's ranges (only the list-continuation fact is proved).",
    ref="DESIGN.md sections 5 C04 and 10.3")
CLAIMED["C07"] = dict(
    text=("Proof of the ordering facts that make path-bound fields authoritative: in serveHTTP the parameter list handed to the stream is queryParams ++ pathParams "
          "(every path capture after every query parameter, element-wise; append modelled exactly; a cover clause shows the case with several parameters on both sides is reachable); "
          "streamHTTP.RecvMsg applies the parameters after the body has been decoded, exactly once and on the first message only; params.set applies the list in slice order and walks only singular message fields (no panic) for well-formed field paths, which fieldPath guarantees for every key it resolves."),
    note=TRUST + "Assumed: protoreflect Set semantics (last write wins per field), parseQueryParams returning a fresh slice of well-formed params (trusted contract); the body is decoded before params are applied (program order in RecvMsg).",
    ref="DESIGN.md sections 5 C07 and 10.3")
CLAIMED["C11"] = dict(
    text=("Partial proof. Publication: DropConn stores the state without the connection exactly when it was known and nothing otherwise; RegisterConn stores at most once and never on failure. "
          "Removal: removeHandler forgets the connection (map model) and unregisters a method whose last handler goes away before its rule is deleted; delRule prunes a trie node only when alive() is false and alive() is true for any node with methods, variables or child segments "
          "(dropping one connection cannot remove another service's routes); re-registering a connection with unchanged descriptors removes nothing; addRule on a binding that is already occupied "
          "(second backend, re-registration, implicit /Service/Method path) compares with the occupying method and never dereferences nil; pickMethodHandler returns one of the handlers registered for the method in the snapshot it is given, never reports a method with a live handler unimplemented, and returns no handler together with an error. delRule removes every verb binding, additional binding and '*' binding of an unregistered method and visits every literal and variable subtree (produced-keys sets of its map ranges), alive() counts a '*' binding; path variables, query parameters and body / response_body selectors are applied through the request message's own field descriptors (fieldOf), so a second backend serving the same service or a backend that registers again cannot make a route panic; the three writers clone and publish under the lock (shared with C12)."),
    note=TRUST + "Go maps with string, integer and pointer keys are modelled (has / value / length per map); reflection fetch, descriptor hashing, the random choice among live backends and delivery to a backend are not decided; delRule not removing '*' bindings or additional bindings is outside the property as stated (stale routes answer Unimplemented).",
    ref="DESIGN.md sections 5 C11 and 10.3")
CLAIMED["C12"] = dict(
    text=("Proof of the sequential copy-on-write discipline: state.clone and path.clone return only freshly allocated state / trie / variable nodes and maps and write nothing that existed before the call "
          "('modifies fresh' frames: every store and map update targets an object allocated by the call; recursion gives every level); the three writers take the lock before loading the snapshot, clone it, "
          "call their mutating helpers on the fresh clone only, and publish with exactly one store on success and none on any error path while holding the lock; serveHTTP / serveGRPC load the state once per request; "
          "Mux.opts is never written after NewMux and method values never after addRule (scans of every store in the package). The copy is faithful: path.clone carries every verb binding, the '*' binding, every literal child and the number of variable edges of the original (proved with the produced-keys sets of its map ranges)."),
    note=TRUST + "Interleavings, the race detector's happens-before and sync.Pool hand-offs are NOT decided (the generator drops goroutines); that this discipline implies atomicity for concurrent readers is an argument on paper (DESIGN 5 C12). Handler slices and method values are shared between snapshots by design (never written in place).",
    ref="DESIGN.md sections 5 C12 and 10.3")
CLAIMED["C14"] = dict(
    text=("Partial proof of the per-function facts: isReservedHeader reserves every protocol-owned key (content-type, grpc-status, grpc-message, grpc-encoding, grpc-status-details-bin, grpc-timeout, te) for all strings; "
          "setOutgoingHeader never writes such a key from handler header/trailer metadata into the response and newIncomingContext never injects one into incoming metadata; "
          "decodeBinHeader accepts exactly the texts that are valid padded or unpadded base64; in serveGRPC, after the header flush, handler metadata is written only through setOutgoingTrailer (trailer-prefixed keys), never as plain headers; "
          "in serveHTTP an error reply is written only after the handler's header metadata went out (with the first message, or copied before the error document)."),
    note=TRUST + "Assumed: base64 DecodeString succeeds exactly on valid text of its encoding (uninterpreted validity predicates with two axioms, listed). Not decided: lower-casing and value order (strings.ToLower, map iteration), byte-exactness of decoded values, trailer announcement and the gRPC-web trailer frame, net/http header canonicalisation.",
    ref="DESIGN.md sections 5 C14 and 10.3")
CLAIMED["C16"] = dict(
    text=("Proof that registration never panics on any template and resolves selectors in the right message: the template lexer's emitted tokens are, for every input string, an accepting run of the template grammar's token automaton "
          "(ghost run maintained by emit; nested variables rejected), it is memory-safe, terminates and accepts every LITERAL segment whatever literal character it starts with, and both wildcards; addRule's token walk stays inside that run for every accepted template "
          "(no index out of range, its three invalid(...) panics unreachable), hands only well-formed variable patterns to addVariable, never dereferences a nil method at an occupied binding, accepts a duplicate silently only for the same method (full name), "
          "resolves path variables and body in the request type and response_body in the reply type, and stores only selectors whose every element is a singular message field; fieldPath rejects paths through repeated/map fields; "
          "registerService publishes only on success. The representation invariant TrieOk (every trie node has its maps, no child segment is nil, every variable has a subtree; quantified over the objects allocated as nodes via dynamic type tags) "
          "is established by newPath and preserved on every return by addPath, addVariable and addRule, which discharges addRule's nil obligations on its cursor."),
    note=TRUST + "addRule is under a partial contract (claimed: ghost assertions, index, slice, loop invariants, preconditions of its closures and of addVariable's pattern clause); its nil obligations for map contents and the recursion for additional bindings are not claimed (frame assumed). clone's preservation of TrieOk and the non-nil entries of variable lists are not proved (DESIGN 10.6). Not decided: that every grammar-conforming template is accepted (only LITERAL and wildcard acceptance), that an instantiated path routes back to the method (C01/C02 assume the trie invariant), failure atomicity inside one registration beyond publish-on-success.",
    ref="DESIGN.md sections 5 C16 and 10.3")
CLAIMED["C18"] = dict(
    text=("Partial proof (call counts, constructors, stream info): muxOptions.unary / stream invoke exactly one of interceptor and handler, once, on every path; the StreamServerInfo built for local and for proxied streaming methods carries the method's own name and "
          "its client/server streaming flags, the UnaryServerInfo the method name; gRPC RecvMsg/SendMsg, HTTP decodeRequestArgs/SendMsg and WebSocket RecvMsg/SendMsg emit exactly one payload event per message when a stats handler is installed (the WebSocket stream is created with the mux's handler) and none when the call fails; "
          "the stats.End event built in serveHTTP (HTTP and WebSocket branches) and serveGRPC carries the handler's error (checked on the argument of the HandleRPC call); streamGRPC.SendHeader's stats block cannot dereference a nil compressor; inPayload / outPayload carry the client flag and lengths of their arguments; on every path of serveHTTP / serveGRPC that reports stats.Begin exactly one stats.End is reported, by the transport's regular End or by the early-end closure (which reports at most one End, with the error handed in); no End without a Begin (seven return sites violated this until the repair recorded in known_findings.json); the context interceptors of log.go hand the call's own method name and streaming flags to the user's function."),
    note=TRUST + "Not decided: the generated gRPC glue invoking the interceptor, event ordering across handler-driven stream calls, that installing options never changes the outcome as a two-run equivalence (only the nil-dereference instance in SendHeader).",
    ref="DESIGN.md sections 5 C18 and 10.3")

CLAIMED["C19"] = dict(
    text=("Partial proof of the per-node discipline of the selector trie: getRules collects a node's own (exact) rules only when the looked-up name ends at that node, and a node's wildcard rules only for names that continue below it "
          "(so a selector that is a proper prefix of a method name, without wildcard, is not bound to the method, and pkg.Service.* does not match pkg.Service itself); setRules files a trailing '*' component in the wildcard list and the end of a name in the exact list; "
          "appendHandler compiles the implicit rule, the service-config rules (looked up after the implicit rule, by the method's full name) and the annotation through the same addRule call with the same method descriptor and handler name."),
    note=TRUST + "Two one-line clauses on getRules, written from the property statement; they decide the negative direction ('a rule must not leak') locally. Not decided: that setRules files every selector under the right node (its recursive closure calls itself through a captured variable and is abstracted), that a bound service-config rule behaves like an annotation (same addRule call in appendHandler, by inspection), the health service end to end.",
    ref="DESIGN.md sections 5 C19 and 10.3")

CLAIMED["C10"] = dict(
    text=("Partial proof, per path, of what larking's own proxy closures do (not of the equivalence): the streaming proxy opens the backend stream for the proxied method's own name and stream description, "
          "with the caller's incoming metadata as outgoing metadata whenever there is any, passes the first request message on as received, returns a backend failure as it is (the error value that carries code, message and details), "
          "passes the backend's trailer on after a clean end, and its client pump calls CloseSend on the backend stream when the client's stream ends (io.EOF); isStreamError treats exactly nil, io.EOF and context.Canceled as non-failures; "
          "the unary proxy invokes the backend for the method's own name with the caller's metadata, the request and reply objects handed in and out, and passes an error on. "
          "A client stream that ends before its first message opens the backend stream and half-closes it at once (repaired; it was answered with EOF before)."),
    note=TRUST + "Thin clauses on the closures of createConnHandler, written from the property statement after a probe showed a hung client-streaming call (fixed). Not decided: the observational equivalence itself, the interleavings of the two pumps and which side fails first (goroutines are abstracted by the generator: each closure is verified as a sequential function, its captured variables as heap cells), grpc-go's streams, response header metadata, message contents (dynamicpb round trip).",
    ref="DESIGN.md sections 5 C10 and 10.3")

CLAIMED["C03"] = dict(
    text=("Partial proof of larking's own share of the reconstruction (not of the round trip): in parseParam every arm of the kind switch builds the value with the constructor of the field's kind "
          "(bool/int32/int64/uint32/uint64/float/double/string/bytes/enum/message values only for fields of those kinds, eleven call-site clauses), and the function contains no integer conversion that can change a value, "
          "so text that does not fit the field's width is refused by the typed decoder and never truncated afterwards; fieldPath resolves a dotted path only through singular message fields of the request type and params.set "
          "applies the parsed values in order without panicking (contracts shared with C07/C09)."),
    note=TRUST + "Not decided: what encoding/json, protojson, base64 and gzip accept or produce (the conversion of the text itself), the body codecs, equality of the delivered message with the one sent. These are library behaviour; a contract would axiomatise the libraries, not decide larking's code (DESIGN 5 C03).",
    ref="DESIGN.md section 5 C03")

CLAIMED["C20"] = dict(
    text=("Partial proof of the registration discipline of NewServer and its options (not of net/http's routing): for every configured mount pattern, with P the pattern without its final '/', "
          "the mux is mounted on the subtree pattern P+'/' behind http.StripPrefix(P, mux) - the stripped prefix is exactly P (never the pattern with its slash), is non-empty, the handler behind it is the mux that was passed in, "
          "and exactly one stripping handler is built per subtree mount; an empty P (pattern '' or '/') mounts the mux itself on '/'; the http.ServeMux that HTTPHandlerOption filled is the one the mounts are added to and that is served "
          "(extra handlers stay reachable under their own patterns, which HTTPHandlerOption registers verbatim); a nil mux is refused; MuxHandleOption stores the caller's patterns and refuses to be given twice."),
    note=TRUST + "Assumed (library behaviour, not decided): http.ServeMux dispatches a request under a subtree pattern P+'/' to that pattern's handler and prefers the longest pattern, http.StripPrefix(P, h) serves path P+rest as rest, strings.TrimSuffix (model listed), h2c/http2 wiring leaves the handler's behaviour unchanged. The equivalence 'same status, headers and body as the bare mux' is therefore reduced to these clauses plus those assumptions; the witness verifWitnessMountPrefix exercises it through the real net/http when a clause fails.",
    ref="DESIGN.md sections 5 C20 and 10.3")

CLAIMED["C13"] = dict(
    text=("Partial proof of the sequential hand-back discipline of pooled objects (not of schedules or races): a pooled gzip reader goes back to its pool at most once per hand-out and the wrapper a request holds never keeps, reads or returns a reader that is in the pool "
          "(ghost state 'pooled' on the gzip.Reader; representation invariant of gzipReader as pre- and postcondition of Read, whatever the caller does after the end of the body); "
          "on every path of streamGRPC.RecvMsg / SendMsg the scratch buffer taken from bufPool goes back exactly once and is neither read nor measured after it went back; "
          "the carry-over of an HTTP client stream (streamHTTP.rbuf) never shares its backing array with the caller's pooled buffer, and readAll / the stream codecs return either the caller's buffer or a fresh one; "
          "HttpBody data handed to the request message is a copy, not the pooled buffer; a reply compressor that serveHTTP's body closed is not closed again by the deferred close (a second Close would pool the gzip writer twice)."),
    note=TRUST + "Two defects found by these clauses were repaired (double Put of the gzip reader, buf.Len() after Put: known_findings.json). NOT decided: everything that needs a schedule - which goroutine receives what from a sync.Pool, data races in general (the generator drops go statements and sync primitives), the proxy's pump goroutines, the deferred Put of bytesPool buffers (deferred closures are verified as separate functions), pooled gzip writers inside CompressorGzip.Compress / Decompress (interior pointers to the pools are outside the value model). Assumed: sync.Pool hands out an object only after it was put back or newly made; (*gzip.Reader).Read behaves as an io.Reader and writes no larking struct; ghost fields are not changed by calls into dependencies.",
    ref="DESIGN.md sections 5 C13 and 10.3")

NA = {
}

PENDING = "contracts for this property are not yet discharged by the framework (build order in DESIGN.md section 9); not claimed until its obligations are green"

def main():
    props = [json.loads(l)["id"] for l in open(os.path.join(HERE, "properties.jsonl"))]
    checks = []
    for pid in props:
        if pid in CLAIMED:
            c = CLAIMED[pid]
            checks.append({
                "property_id": pid,
                "quick_cmd": f"./check {pid} quick",
                "thorough_cmd": f"./check {pid} thorough",
                "evidence_file": f"/verif/evidence/{pid}.json",
                "replay_cmd_template": "./check replay {path}",
                "engine": "govc",
                "level_claimed": {"category": "proof", "text": c["text"], "design_ref": c["ref"]},
                "level_note": c["note"],
                "technique": TECH,
            })
    na = []
    for pid in props:
        if pid in CLAIMED:
            continue
        na.append({"property_id": pid, "reason": NA.get(pid, PENDING)})
    commits = subprocess.run(["git", "-C", "/repo", "log", "--format=%h %s", "--", "larking/verif_contracts.go"],
                             capture_output=True, text=True).stdout.strip().splitlines()
    man = {
        "version": 1,
        "setup_cmd": "cd /verif/govc && GOFLAGS=-mod=vendor GOPROXY=off GOSUMDB=off GOTOOLCHAIN=local go build -o ../bin/govc .",
        "hooks": {
            "guard": "verif",
            "enable": "go build tag `verif` (-tags verif): compiles in larking/verif_contracts.go, a comment-only file holding the //@ contracts; govc loads the package with that tag",
            "baseline_off_cmd": "cd /repo && GOFLAGS=-mod=mod GOPROXY=off GOSUMDB=off go test -json -vet=off -count=1 -timeout 25m ./...",
            "source_commits": [c.split()[0] for c in commits],
            "add_only": True,
        },
        "engines": [{
            "name": "govc",
            "path": "/verif/govc",
            "serves_properties": sorted(CLAIMED),
            "kind_free_text": "own VC generator over go/ssa (naive form) with contracts as //@ comments; passive-form symbolic execution, loops cut by invariants, modular calls; obligations discharged by racing z3 4.8.12, z3 5.1.0 and cvc5 1.0.3; counterexamples replayed on the real code through go test -overlay",
        }],
        "checks": checks,
        "not_applicable": na,
        "notes": "Contract-based deductive verification of the real code. Known findings: /verif/known_findings.json. Seeded breaking changes: /verif/seeded/. See DESIGN.md.",
    }
    with open(os.path.join(HERE, "MANIFEST.json"), "w") as f:
        json.dump(man, f, indent=1)
        f.write("\n")

if __name__ == "__main__":
    main()
