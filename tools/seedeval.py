#!/usr/bin/env python3
"""Evaluate the seeded breaking changes kept under /verif/seeded/<ID>-<n>/ (delivered by sub-agents).
For each: confirm in a scratch worktree (compiles, suite ok, demo fails with / passes without),
then apply to /repo, run ./check <ID> and undo. Results go to /verif/seeded/<ID>-<n>/meta.json."""
import os, subprocess, sys, json, shutil, glob, re

ENV = dict(os.environ, GOFLAGS="-mod=mod", GOPROXY="off", GOSUMDB="off", GOTOOLCHAIN="local")
WT = "/root/scratch/seed-wt"

def sh(*a, cwd=None, timeout=900):
    return subprocess.run(a, capture_output=True, text=True, env=ENV, cwd=cwd, timeout=timeout)

def apply_patch(dst, wt, meta):
    """git apply; then the rebased variant; then with reduced context; then patch(1) with fuzz (later fixes moved lines)."""
    ap = sh("git", "apply", f"{dst}/patch.diff", cwd=wt)
    if ap.returncode == 0:
        return ap
    if os.path.exists(f"{dst}/patch.rebased.diff"):
        ap2 = sh("git", "apply", f"{dst}/patch.rebased.diff", cwd=wt)
        if ap2.returncode == 0:
            meta["rebased"] = True
            return ap2
    ap3 = sh("git", "apply", "-C1", f"{dst}/patch.diff", cwd=wt)
    if ap3.returncode == 0:
        meta["applied_with"] = "git apply -C1 (reduced context: later fixes moved the surrounding lines)"
        return ap3
    sh("git", "checkout", "--", ".", cwd=wt)
    ap4 = sh("patch", "-p1", "--fuzz=3", "--no-backup-if-mismatch", "-i", f"{dst}/patch.diff", cwd=wt)
    if ap4.returncode == 0:
        meta["applied_with"] = "patch -p1 --fuzz=3 (later fixes moved the surrounding lines)"
        for f in glob.glob(wt + "/larking/*.orig") + glob.glob(wt + "/larking/*.rej"):
            os.remove(f)
        return ap4
    sh("git", "checkout", "--", ".", cwd=wt)
    return ap

def main():
    global WT
    only = [a for a in sys.argv[1:] if not a.startswith("--")]
    shard = None
    for a in sys.argv[1:]:
        if a.startswith("--shard="):
            i, n = a[len("--shard="):].split("/")
            shard = (int(i), int(n))
            WT = WT + f"-{i}of{n}"
    os.makedirs("/root/scratch", exist_ok=True)
    for k, dst in enumerate(sorted(glob.glob("/verif/seeded/C*-*"))):
        if shard and k % shard[1] != shard[0]:
            continue
        if not os.path.exists(dst + "/patch.diff"):
            continue
        name = os.path.basename(dst)
        pid = name.split("-")[0]
        if only and name not in only and pid not in only:
            continue
        since = [float(a[len("--since="):]) for a in sys.argv[1:] if a.startswith("--since=")]
        if since and os.path.exists(f"{dst}/meta.json") and os.path.getmtime(f"{dst}/meta.json") > since[0]:
            continue
        if "--new" in sys.argv and os.path.exists(f"{dst}/meta.json") and json.load(open(f"{dst}/meta.json")).get("confirmed"):
            continue
        old_meta = json.load(open(f"{dst}/meta.json")) if os.path.exists(f"{dst}/meta.json") else {}
        meta = {"official_check": old_meta.get("official_check"), "obsolete": old_meta.get("obsolete"), "id": name, "property": pid, "source": "independent sub-agent given only the property text and a scratch worktree"}
        sh("git", "-C", "/repo", "worktree", "remove", "--force", WT)
        r = sh("git", "-C", "/repo", "worktree", "add", "--detach", WT, "HEAD")
        try:
            ap = apply_patch(dst, WT, meta)
            meta["applies_to_head"] = ap.returncode == 0
            if ap.returncode != 0:
                meta["apply_error"] = ap.stderr[-500:]
                print(f"{name}: patch does not apply to current HEAD: {ap.stderr[-200:]}")
                json.dump(meta, open(f"{dst}/meta.json", "w"), indent=1)
                continue
            b = sh("go", "build", "./larking", cwd=WT)
            meta["compiles"] = b.returncode == 0
            t = sh("go", "test", "-vet=off", "-count=1", "./larking", cwd=WT)
            meta["suite_passes_with_change"] = t.returncode == 0
            shutil.copy(f"{dst}/demo_test.go", f"{WT}/larking/zz_seed_demo_test.go")
            tests = re.findall(r"^func (Test\w+)\(", open(f"{dst}/demo_test.go").read(), re.M)
            run = "^(" + "|".join(tests) + ")$"
            dm = sh("go", "test", "-vet=off", "-count=1", "-run", run, "./larking", cwd=WT)
            meta["demo_fails_with_change"] = dm.returncode != 0
            # run the property's check on the changed tree (scratch worktree as -repo, scratch output dir)
            os.remove(f"{WT}/larking/zz_seed_demo_test.go")
            OUT = WT + "-out"
            shutil.rmtree(OUT, ignore_errors=True)
            os.makedirs(OUT + "/contracts", exist_ok=True)
            for f in os.listdir("/verif/contracts"):
                shutil.copy("/verif/contracts/" + f, OUT + "/contracts/" + f)
            shutil.copy("/verif/known_findings.json", OUT + "/known_findings.json")
            if "--official" in sys.argv:
                pass
            ck_args = ["/verif/bin/govc", "check", "-repo", WT, "-verif", OUT, "-props", pid, "-tier", "quick"]
            if "--noreplay" in sys.argv:
                ck_args += ["-noreplay"] + ([] if "--fullbudget" in sys.argv else ["-t2", "25"])
            ck = sh(*ck_args)
            viol = [l for l in ck.stdout.splitlines() if l.startswith("VIOLATION")]
            meta["check_cmd"] = f"govc check -repo <scratch worktree with patch> -props {pid} -tier quick (same engine and contracts as ./check {pid} quick)"
            meta["check_exit"] = ck.returncode
            meta["detected"] = ck.returncode == 1 and bool(viol)
            meta["violations"] = [re.sub(r" replay=\S+", "", v)[:260] for v in viol[:8]]
            meta["confirmed_by_replay"] = [re.sub(r" replay=\S+", "", v)[:200] for v in viol if "no-failing-input-found" not in v][:4]
            if not viol:
                meta["check_tail"] = ck.stdout[-400:]
            shutil.rmtree(OUT, ignore_errors=True)
            sh("git", "reset", "--hard", "HEAD", cwd=WT)
            sh("git", "clean", "-fdq", cwd=WT)
            shutil.copy(f"{dst}/demo_test.go", f"{WT}/larking/zz_seed_demo_test.go")
            dm2 = sh("go", "test", "-vet=off", "-count=1", "-run", run, "./larking", cwd=WT)
            meta["demo_passes_without_change"] = dm2.returncode == 0
            if dm2.returncode != 0:
                meta["demo_without_output"] = dm2.stdout[-600:]
        finally:
            sh("git", "-C", "/repo", "worktree", "remove", "--force", WT)
        ok = all(meta.get(k) for k in ("compiles", "suite_passes_with_change", "demo_fails_with_change", "demo_passes_without_change"))
        meta["confirmed"] = ok
        # (the check ran inside the scratch worktree, see below)
        json.dump(meta, open(f"{dst}/meta.json", "w"), indent=1)
        print(f"{name}: confirmed={ok} detected={meta.get('detected')} " + ("; ".join(v.split('obligation=')[1][:90] for v in meta.get('violations', [])[:2])))

if __name__ == "__main__":
    main()
