#!/usr/bin/env python3
"""Official seeded pass: apply each kept seed to /repo itself (git apply), run ./check <id> quick,
undo it straight afterwards (git checkout -- .), and record the outcome in seeded/<id>/meta.json
under "official_check". /repo must be clean before and is clean after every seed."""
import json, os, re, subprocess, sys, glob

ENV = dict(os.environ, GOFLAGS="-mod=mod", GOPROXY="off", GOSUMDB="off", GOTOOLCHAIN="local", VERIF_SEED="1", VERIF_TIER="quick")

def sh(*a, cwd=None, timeout=1800):
    return subprocess.run(a, capture_output=True, text=True, env=ENV, cwd=cwd, timeout=timeout)

def clean():
    return sh("git", "-C", "/repo", "status", "--porcelain").stdout.strip() == ""

def main():
    only = sys.argv[1:]
    assert clean(), "/repo is not clean"
    for d in sorted(glob.glob("/verif/seeded/C*-*")):
        name = os.path.basename(d)
        pid = name.split("-")[0]
        if only and name not in only and pid not in only:
            continue
        mp = d + "/meta.json"
        meta = json.load(open(mp)) if os.path.exists(mp) else {"id": name, "property": pid}
        patch = d + "/patch.rebased.diff" if os.path.exists(d + "/patch.rebased.diff") else d + "/patch.diff"
        ap = sh("git", "-C", "/repo", "apply", patch)
        rec = {"patch": os.path.basename(patch), "cmd": f"git -C /repo apply {os.path.basename(patch)} ; ./check {pid} quick ; git -C /repo checkout -- ."}
        if ap.returncode != 0:
            rec["applies"] = False
            rec["error"] = ap.stderr[-300:]
        else:
            rec["applies"] = True
            try:
                ck = sh("/verif/check", pid, "quick", cwd="/verif")
                viol = [l for l in ck.stdout.splitlines() if l.startswith("VIOLATION")]
                rec["exit"] = ck.returncode
                rec["detected"] = ck.returncode == 1 and bool(viol)
                rec["violations"] = [re.sub(r" replay=\S+", "", v)[:240] for v in viol[:6]]
                rec["confirmed_by_replay"] = sum(1 for v in viol if "no-failing-input-found" not in v)
            finally:
                sh("git", "-C", "/repo", "checkout", "--", ".")
                for l in sh("git", "-C", "/repo", "status", "--porcelain").stdout.splitlines():
                    if l.startswith("??"):
                        os.remove("/repo/" + l[3:])
        assert clean(), "/repo not clean after " + name
        meta["official_check"] = rec
        json.dump(meta, open(mp, "w"), indent=1)
        print(name, "detected" if rec.get("detected") else ("does-not-apply" if not rec.get("applies") else "MISSED"), (rec.get("violations") or [""])[0][:110], flush=True)

if __name__ == "__main__":
    main()
