#!/usr/bin/env python3
"""Regenerates DESIGN.md section 10.8 (prose with the current counts + the table) from seeded/*/meta.json."""
import json, glob, os, subprocess, collections
HERE = "/verif"
rows = []
for d in sorted(glob.glob(HERE + "/seeded/C*-*"), key=lambda p: (os.path.basename(p).split("-")[0], int(os.path.basename(p).split("-")[1]))):
    mp = d + "/meta.json"
    rows.append((os.path.basename(d), json.load(open(mp)) if os.path.exists(mp) else {}))
kept = [(n, m) for n, m in rows if m.get("confirmed")]
det = [n for n, m in kept if m.get("detected")]
missed = [n for n, m in kept if not m.get("detected")]
obsolete = [n for n, m in rows if m.get("obsolete")]
noapply = [n for n, m in rows if m.get("applies_to_head") is False]
maps = [n for n, m in kept if m.get("detected") and (m.get("violations") or [""])[0].find("obligation=generate ") >= 0]
props = sorted(set(n.split("-")[0] for n, m in kept))
table = subprocess.run(["python3", HERE + "/tools/seedtable.py"], capture_output=True, text=True).stdout
prose = f"""### 10.8 Seeded breaking changes

Independent sub-agents received only a property's text and a scratch worktree
with the contract file deleted; they delivered changes that compile, pass the
suite, and come with a demonstration test that fails with the change and passes
without. Three rounds were run in the fifth session on top of the 55 seeds of
the earlier ones (every property got at least two rounds, most three; the later
rounds were told to stay away from the obvious one-line edits). `tools/seedeval.py`
re-confirms all of that for every seed on the current tree in a scratch worktree
of `/repo`'s HEAD (the patch applied with `git apply`, with reduced context or
`patch --fuzz` where later fixes moved the lines), runs the property's check -
the same `govc` binary, the committed contracts - on the changed tree and writes
`seeded/<id>/meta.json` (`check_cmd`, `violations`). (`official_check` in the
meta files of the first 55 seeds is the earlier procedure - the patch applied to
`/repo` itself, `./check <id> quick`, `git checkout -- .` - kept as history; the
two procedures run the same engine on the same sources.)

{len(rows)} changes were delivered; {len(kept)} are kept: confirmed on the current tree
(compiles, suite passes, demonstration fails with the change and passes without),
over {len(props)} properties. The check of the seed's property reports a violation for
**{len(det)} of {len(kept)}**{(' (missed: ' + ', '.join(missed) + ')') if missed else ''}. For {len(maps)} of the detections the first report is
"contract no longer maps" (an anchored clause, a loop ordinal or a named local of
the contract does not exist in the changed function): the contract cannot be
checked against the new body and says so; the others are failing semantic
obligations. {len(obsolete)} seeds ({', '.join(obsolete)}) no longer break their property because a later
repair made the change harmless (the gzip reader that lets go of its pooled
reader, `alive()` counting a `*` binding, `delRule` removing every binding); they
are kept as records and not counted{('; ' + str(len(noapply)) + ' patch(es) no longer apply (' + ', '.join(noapply) + ')') if noapply else ''}.

**Brittleness, measured on those obsolete seeds**: two of them (C11-2, C11-4) are
still *reported* on the repaired tree although they no longer break anything,
because they delete a source line a clause is anchored at ("contract no longer
maps"). That report is honest about what it is - the contract could not be
checked - but it is an alarm on code where the property holds; anchoring clauses
at call prefixes (`assert atcall`) and at `every return` instead of at statement
texts reduces it and is what the clauses of the last two sessions use. The third
(C02-6) showed the opposite hazard, incompleteness: the change is harmless on the
repaired tree, yet two postconditions of `clone` could not be proved until the
engine knew that a map with a key is not empty; with that fact the changed
function verifies.

A sixth-session round (C03-7, C07-7, C14-7, C17-7, C19-7: enum text narrowed
through `Atoi`, a field-by-field merge in `params.set`, the gRPC-web trailer
filtered against the sent headers before the `Trailer:` prefix is stripped,
`growcap` growing once by 1.25x, a wildcard selector also covering the method it
is one component below) was caught in full at first run. C17-7 removed the loop
of `growcap` and was first reported as "loop 1 does not exist"; the engine now
drops clauses of loops that no longer exist (they are only ever assumed at their
own loop head, so this removes assumptions) and the report is the postcondition
`growcap/post[atleast]` with `sat`. A closed-form rewrite of a loop that keeps the
result is therefore no longer an alarm.

A second sixth-session round (C01-7, C09-7, C12-7, C15-7, C20-7): a signed
`grpc-timeout` through `ParseInt` (`decodeTimeout/post[malformed-refused]`), the
untrimmed pattern handed to `StripPrefix` (`NewServer` atcall clause), `>=` in the
WebSocket close-reason truncation (`serveHTTP/inv.init[L1.close-reason]`) and
`clone` sharing `:verb` segments (`clone/inv.keep[L1.3]`) were caught at first
run. **C01-7 was missed**: `clone` shares a variable's leaf `next` node with the
live tree, so a registration that is rejected and thrown away has already
written its rules into the served tree and a request reaches a method through a
rule that was never accepted. The freshness clauses of `clone` decided exactly
that but were tagged for C12 / C16 only; they now serve C01 as well (the
copy-on-write discipline is what keeps unaccepted rules out of routing) and the
seed fails `clone/inv.keep[L2.5]`.

Misses of the fifth session and what they prompted (every one is caught now):
the float narrowing in `parseParam` (C03-1: `conv` reports `float64 -> float32`),
`quote` (C03-2), body presence (C03-3), the comma in `isPath` (C03-4: the function
also serves C03), multi-member gzip bodies (C03-5: `Decompress` under contract
once interior pointers were modelled), the decompression cap (C08-5: `decompress`
checked against its body), DEL in `grpc-message` and the `grpc-` prefix rule for
reserved keys (C10-6, C10-8), the gRPC-web flush before the status (C10-9), the
lock discipline counted for C11 as well (C11-5), the swapped stream flags of the
context interceptor (C18-5), `clone` dropping `*` leaves (C02-6: `rangeseen`), the
HttpBody test on the method's output type (C04-7), metadata kept by reference
(C14-6), the trailing-slash trim (C01-6), the double `Close` of a pooled gzip
writer in `serveHTTP` and in `compress` (C04-3 from the fourth session, C13-1,
C13-4: opt-in counters for deferred calls), the trailer block built in a dirty
pooled buffer (C13-5), the search that stops at a failed literal subtree counted
for C16 (C16-9). Two seeding agents also pointed at defects of the *unmodified*
tree, both confirmed and repaired (10.4: `delRule`, two backends for one service).

Checks added or strengthened in the earlier sessions because a seed was first missed: the `nextRef` vacuity fix
and the `cover` clause (C07-2), `alive` / `delRule` pruning contracts (C11-1), `removeHandler` body
checks (C11-2), `addConnHandler` no-op (C11-3), `clone` freshness with `modifies fresh` (C12-1,
C16-2), lock discipline via `assert atcall` (C12-3), duplicate check by full name with `det`
getters (C16-1), payload event counts (C18-1), `SendHeader` nil obligations (C18-2), stream info
assertions (C18-3), Content-Type before the first message (C04-1), list continuation in
`parseAccept` (C04-2), value-preserving conversions in `parseParam` (C01-3), the Twirp names (C05-3),
the trailer prefix and the service-config fast path (C14-2, C19-3).

"""
p = HERE + "/DESIGN.md"
s = open(p).read()
i = s.index("### 10.8 Seeded breaking changes")
open(p, "w").write(s[:i] + prose + table)
print("kept", len(kept), "detected", len(det), "missed", missed, "obsolete", obsolete, "noapply", noapply)
