#!/usr/bin/env python3
"""Prints the markdown table of seeded changes (DESIGN.md 10.8) from seeded/*/meta.json."""
import json, glob, os, re
rows = []
for d in sorted(glob.glob("/verif/seeded/C*-*"), key=lambda p: (os.path.basename(p).split("-")[0], int(os.path.basename(p).split("-")[1]))):
    name = os.path.basename(d)
    m = json.load(open(d + "/meta.json"))
    notes = open(d + "/notes.md").read() if os.path.exists(d + "/notes.md") else ""
    title = ""
    for l in notes.splitlines():
        l = l.strip().lstrip("#").strip()
        if l and not l.lower().startswith("seed"):
            title = l
            break
    if not title:
        title = (notes.strip().splitlines() or [""])[0].lstrip("# ").strip()
    # the latest evaluation (tools/seedeval.py: the same engine and contracts run on a scratch worktree
    # of /repo's HEAD with the patch applied); official_check (the patch applied to /repo itself) exists
    # for the seeds of the earlier sessions and is kept in meta.json as history
    if m.get("obsolete"):
        res, by = "no longer breaks the property (made harmless by a later fix)", ""
    elif m.get("applies_to_head") is False:
        res, by = "patch does not apply", ""
    elif not m.get("confirmed"):
        res, by = "not confirmed on the current tree", ""
    elif m.get("detected"):
        res = "caught"
        v = (m.get("violations") or [""])[0]
        mo = re.search(r"obligation=(.*?)( status=| no-failing|$)", v)
        by = mo.group(1) if mo else v
        if by.startswith("generate "):
            by = "contract no longer maps: " + by[len("generate "):]
        n = len(m.get("violations") or [])
        if n > 1:
            by += f" (+{n-1})"
    else:
        res = "**missed**"
        by = ""
    rows.append((name, title[:90].replace("|", "/"), res, by[:150].replace("|", "/")))
print("| seed | change | result | first failing obligation |")
print("|---|---|---|---|")
for r in rows:
    print("| " + " | ".join(r) + " |")
