#!/usr/bin/env python3
"""Prints the markdown table of seeded changes (DESIGN.md 10.8) from seeded/*/meta.json."""
import json, glob, os, re
rows = []
for d in sorted(glob.glob("/verif/seeded/C*-*")):
    name = os.path.basename(d)
    m = json.load(open(d + "/meta.json"))
    notes = open(d + "/notes.md").read() if os.path.exists(d + "/notes.md") else ""
    title = ""
    for l in notes.splitlines():
        l = l.strip().lstrip("#").strip()
        if l and not l.lower().startswith("seed"):
            title = l
            break
    if not title:
        title = (notes.strip().splitlines() or [""])[0].lstrip("# ").strip()
    oc = m.get("official_check", {})
    if not oc.get("applies", True):
        res = "patch does not apply"
        by = ""
    elif oc.get("detected"):
        res = "caught"
        v = (oc.get("violations") or [""])[0]
        mo = re.search(r"obligation=(.*?)( status=| no-failing|$)", v)
        by = mo.group(1) if mo else v
        if by.startswith("generate "):
            by = "contract no longer maps: " + by[len("generate "):]
        n = len(oc.get("violations") or [])
        if n > 1:
            by += f" (+{n-1})"
    else:
        res = "**missed**"
        by = ""
    rows.append((name, title[:90].replace("|", "/"), res, by[:150].replace("|", "/")))
print("| seed | change | result | first failing obligation |")
print("|---|---|---|---|")
for r in rows:
    print("| " + " | ".join(r) + " |")
