#!/bin/sh
# usage: model.sh query.smt2 regex  — evaluate all Int/Bool constants matching regex in a model
f=$1; re=${2:-.}
names=$(grep -oE '^\((declare-fun|define-fun) [^ ]+ \(\) (Int|Bool)' "$f" | awk '{print $2}' | grep -E "$re" | tr '\n' ' ')
(echo "(set-option :produce-models true)"; cat "$f"; echo "(get-value ($names))") > /tmp/model_q.smt2
${Z3:-z3} -T:60 /tmp/model_q.smt2 | tr '\n' ' ' | sed 's/) (/)\n(/g'; echo
