#!/usr/bin/env python3
"""Import seeds delivered by sub-agents under /tmp/seed/out/<ID>-<k>/ into /verif/seeded/<ID>-<n>/ (next free n)."""
import os, sys, shutil, glob, re
for src in sorted(glob.glob("/tmp/seed/out/C*-*")):
    name = os.path.basename(src)
    pid = name.split("-")[0]
    if sys.argv[1:] and pid not in sys.argv[1:]:
        continue
    if os.path.exists(src + "/.imported") or not os.path.exists(src + "/patch.diff"):
        continue
    ns = [int(os.path.basename(d).split("-")[1]) for d in glob.glob(f"/verif/seeded/{pid}-*")]
    n = max(ns + [0]) + 1
    dst = f"/verif/seeded/{pid}-{n}"
    os.makedirs(dst)
    for f in ("patch.diff", "demo_test.go", "notes.md"):
        if os.path.exists(f"{src}/{f}"):
            shutil.copy(f"{src}/{f}", f"{dst}/{f}")
    open(src + "/.imported", "w").write(dst)
    print(name, "->", dst)
