#!/usr/bin/env python3
"""Split the goal of a dumped query into conjuncts and time each on the solvers."""
import sys, subprocess, time
f = sys.argv[1]
lines = open(f).read().strip().split('\n')
goal = lines[-2]
pre = '\n'.join(lines[:-2])
assert goal.startswith('(assert (not (=> ')
inner = goal[len('(assert (not (=> '):-3]
# reach name, then cond
sp = inner.index(' ')
reach, cond = inner[:sp], inner[sp+1:]
def split_and(c):
    if c.startswith('(=> '):
        body=c[4:-1]; d=0
        for i,ch in enumerate(body):
            if ch=='(': d+=1
            elif ch==')': d-=1
            if d==0 and ch in ' )':
                cut=i+1 if ch==')' else i
                ante,cons=body[:cut],body[cut:].strip()
                ps=split_and(cons)
                if len(ps)==1: return [c]
                return ['(=> %s %s)'%(ante,p) for p in ps]
        return [c]
    if not c.startswith('(and '): return [c]
    body = c[5:-1]; out=[]; d=0; start=0
    for i,ch in enumerate(body+' '):
        if ch==' ' and d==0:
            if i>start: out += split_and(body[start:i])
            start=i+1
        elif ch=='(': d+=1
        elif ch==')': d-=1
    return out
for i,p in enumerate(split_and(cond)):
    q = pre + '\n(assert (not (=> %s %s)))\n(check-sat)\n' % (reach, p)
    open('/tmp/part.smt2','w').write(q)
    res=[]
    for solver in (['z3','-T:20'],['z3-new','-T:20']):
        t=time.time()
        try: r=subprocess.run(solver+['/tmp/part.smt2'],capture_output=True,text=True,timeout=25).stdout.split('\n')[0]
        except Exception: r='TO'
        res.append('%s %s %.2fs'%(solver[0],r,time.time()-t))
    print(i, ' | '.join(res), '|', p[:160])
