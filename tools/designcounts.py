#!/usr/bin/env python3
"""Refresh the obligation counts of the table in DESIGN.md 10.3 from /verif/evidence/<id>.json."""
import json, re, os
HERE = os.path.dirname(os.path.dirname(os.path.abspath(__file__)))
p = os.path.join(HERE, "DESIGN.md")
s = open(p).read()
def repl(m):
    pid = m.group(1)
    f = os.path.join(HERE, "evidence", pid + ".json")
    if not os.path.exists(f):
        return m.group(0)
    c = json.load(open(f))["coverage"]
    n = c["discharged"]
    k = len(c.get("known_findings_hit") or [])
    cell = f"{n} (+{k} known)" if k else str(n)
    return f"| {pid} | {cell} |"
a = s.index("### 10.3 What each claimed property decides today")
b = s.index("#### 10.3.1", a)
s2 = s[:a] + re.sub(r"^\| (C\d\d) \| \d+(?: \(\+\d+ known\))? \|", repl, s[a:b], flags=re.M) + s[b:]
open(p, "w").write(s2)
print("rows updated:", sum(1 for a, b in zip(s.splitlines(), s2.splitlines()) if a != b))
