#!/usr/bin/env python3
"""Summary of /verif/seeded/*/meta.json: kept (confirmed) seeds, detections, misses, obsolete and non-applying ones."""
import json, glob, os, collections
rows = []
for d in sorted(glob.glob("/verif/seeded/C*-*"), key=lambda p: (os.path.basename(p).split("-")[0], int(os.path.basename(p).split("-")[1]))):
    m = json.load(open(d + "/meta.json")) if os.path.exists(d + "/meta.json") else {}
    rows.append((os.path.basename(d), m))
kept = [(n, m) for n, m in rows if m.get("confirmed")]
print("seeds:", len(rows), "kept (confirmed on the current tree):", len(kept), "detected:", sum(1 for n, m in kept if m.get("detected")))
print("missed:", [n for n, m in kept if not m.get("detected")])
print("not confirmed on the current tree:", [(n, "obsolete" if m.get("obsolete") else ("does not apply" if m.get("applies_to_head") is False else "demo/suite")) for n, m in rows if not m.get("confirmed")])
maps = [n for n, m in kept if m.get("detected") and all(v.startswith("VIOLATION") and "obligation=generate " in v for v in m.get("violations", [])[:1])]
print("detected only as 'contract no longer maps' (first violation):", len(maps))
by = collections.Counter(n.split("-")[0] for n, m in kept)
print("per property:", dict(sorted(by.items())))
