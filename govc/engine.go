package main

// Engine: program loading, global tables, prelude.

import (
	"time"
	"regexp"
	"fmt"
	"math/big"
	"go/constant"
	"go/token"
	"go/types"
	"os"
	"sort"
	"strings"

	"golang.org/x/tools/go/packages"
	"golang.org/x/tools/go/ssa"
	"golang.org/x/tools/go/ssa/ssautil"
)

type Engine struct {
	prog  *ssa.Program
	pkg   *ssa.Package
	cs    *Contracts
	funcs map[string]*ssa.Function

	heapSorts   map[string]string
	lits        []string          // string literals in order
	litArr      map[string]string // literal -> array const
	litOf       map[string]string // array const -> literal
	needBand    bool
	needStrLess bool
	needVarint  bool
	needProto   bool
	needStrID   bool
	needB64     bool
	allocMemo   map[*ssa.Function]int
	dynSpecs    map[string]bool // spec functions that (transitively) mention dyn/tid
	dynTypes    map[string]bool // struct type names whose objects carry a dynamic type tag (used by tid("T") in specs)
	needMapHas  bool
	needApplyRB bool
	needUnicode bool
	applies     map[string]string // function key -> spec function giving its value as a predicate
	needDecval  bool
	typeIDs     map[string]int
	typeNames   []string
	globalRefs  map[*ssa.Global]int
	funcIDs     map[*ssa.Function]int
	knownNonNil map[string]bool
	boxed       map[string]Val
	implFns     map[string]bool
	srcLines    map[string][]string
	mutGlobals  map[*ssa.Global]bool // globals written outside init
	globArrays  map[int][]string     // global ref -> known constant contents
	recDecls    map[string]string    // recursive spec function declarations
	recAxioms   map[string]string
	ufDecls     map[string]string    // other uninterpreted functions
	sentinel    map[*ssa.Global]int
	applyAxioms []string
}

func loadEngine(repo string, contractFiles []string) (*Engine, error) {
	cfg := &packages.Config{Mode: packages.LoadAllSyntax, Dir: repo, BuildFlags: []string{"-tags=verif"},
		Env: append(os.Environ(), "GOFLAGS=-mod=mod", "GOPROXY=off", "GOSUMDB=off", "GOTOOLCHAIN=local")}
	// the go command is run underneath: a transient failure (cache lock, loaded machine) must not
	// become a broken check, so loading is tried up to three times
	var pkgs []*packages.Package
	var err error
	for attempt := 1; ; attempt++ {
		pkgs, err = packages.Load(cfg, "./larking")
		if err == nil && packages.PrintErrors(pkgs) > 0 {
			err = fmt.Errorf("package errors")
		}
		if err == nil || attempt == 3 {
			break
		}
		fmt.Fprintf(os.Stderr, "govc: load attempt %d failed (%v), retrying\n", attempt, err)
		time.Sleep(time.Duration(attempt) * 2 * time.Second)
	}
	if err != nil {
		return nil, err
	}
	prog, spkgs := ssautil.AllPackages(pkgs, ssa.NaiveForm|ssa.GlobalDebug)
	prog.Build()
	e := &Engine{prog: prog, pkg: spkgs[0], funcs: map[string]*ssa.Function{}, heapSorts: map[string]string{},
		litArr: map[string]string{}, litOf: map[string]string{}, typeIDs: map[string]int{}, globalRefs: map[*ssa.Global]int{},
		funcIDs: map[*ssa.Function]int{}, knownNonNil: map[string]bool{}, boxed: map[string]Val{}, implFns: map[string]bool{},
		srcLines: map[string][]string{}, mutGlobals: map[*ssa.Global]bool{}, globArrays: map[int][]string{},
		recDecls: map[string]string{}, recAxioms: map[string]string{}, ufDecls: map[string]string{}, sentinel: map[*ssa.Global]int{}}
	for fn := range ssautil.AllFunctions(prog) {
		if fn.Pkg == e.pkg {
			e.funcs[funcKey(fn)] = fn
		}
	}
	e.cs, err = loadContracts(contractFiles...)
	if err != nil {
		return nil, err
	}
	e.dynTypes = map[string]bool{}
	for _, f := range contractFiles {
		data, _ := os.ReadFile(f)
		for _, m := range tidRe.FindAllStringSubmatch(string(data), -1) {
			e.dynTypes[m[1]] = true
		}
	}
	e.scanGlobals()
	return e, nil
}

func (e *Engine) emptyArr() string { return e.strLit("") }

func (e *Engine) strLit(s string) string {
	if n, ok := e.litArr[s]; ok {
		return n
	}
	n := fmt.Sprintf("lit!%d", len(e.lits))
	e.lits = append(e.lits, s)
	e.litArr[s] = n
	e.litOf[n] = s
	return n
}

func (e *Engine) typeID(t types.Type) int {
	k := types.TypeString(t, nil)
	k = byteRe.ReplaceAllString(k, "uint8")
	k = runeRe.ReplaceAllString(k, "int32")
	if id, ok := e.typeIDs[k]; ok {
		return id
	}
	id := len(e.typeIDs) + 1
	e.typeIDs[k] = id
	e.typeNames = append(e.typeNames, k)
	return id
}

func (e *Engine) implFn(t types.Type) string {
	n := "impl!" + sanitize(types.TypeString(t, shortQual))
	e.implFns[n] = true
	return n
}

func (e *Engine) globalRef(g *ssa.Global) int {
	if r, ok := e.globalRefs[g]; ok {
		return r
	}
	r := len(e.globalRefs) + 1
	e.globalRefs[g] = r
	return r
}

func (e *Engine) funcID(f *ssa.Function) int {
	if r, ok := e.funcIDs[f]; ok {
		return r
	}
	r := len(e.funcIDs) + 1
	e.funcIDs[f] = r
	return r
}

// scanGlobals finds globals written outside init and constant array contents.
func (e *Engine) scanGlobals() {
	rootGlobal := func(v ssa.Value) *ssa.Global {
		for {
			switch x := v.(type) {
			case *ssa.Global:
				return x
			case *ssa.FieldAddr:
				v = x.X
			case *ssa.IndexAddr:
				v = x.X
			default:
				return nil
			}
		}
	}
	for _, fn := range e.funcs {
		isInit := fn.Name() == "init" || strings.HasPrefix(fn.Name(), "init#")
		for _, b := range fn.Blocks {
			for _, in := range b.Instrs {
				switch in := in.(type) {
				case *ssa.Store:
					if g := rootGlobal(in.Addr); g != nil && !isInit {
						e.mutGlobals[g] = true
					}
					if g, ok := in.Val.(*ssa.Global); ok {
						e.mutGlobals[g] = true // address escapes
					}
				case *ssa.Call:
					for _, a := range in.Call.Args {
						if g := rootGlobal(a); g != nil {
							e.mutGlobals[g] = true
						}
					}
				case *ssa.Slice:
					if g := rootGlobal(in.X); g != nil {
						e.mutGlobals[g] = true
					}
				}
			}
		}
	}
	// constant contents from init: stores of constants at constant indices
	init := e.pkg.Func("init")
	if init == nil {
		return
	}
	for _, b := range init.Blocks {
		for _, in := range b.Instrs {
			st, ok := in.(*ssa.Store)
			if !ok {
				continue
			}
			ia, ok := st.Addr.(*ssa.IndexAddr)
			if !ok {
				continue
			}
			g, ok := ia.X.(*ssa.Global)
			if !ok {
				continue
			}
			ic, ok1 := ia.Index.(*ssa.Const)
			vc, ok2 := st.Val.(*ssa.Const)
			if !ok1 || !ok2 || len(b.Preds) > 0 && false {
				continue
			}
			arr, ok := g.Type().(*types.Pointer).Elem().Underlying().(*types.Array)
			if !ok || !isInteger(arr.Elem()) {
				continue
			}
			idx, _ := constant.Int64Val(ic.Value)
			val, ok := constInt(vc)
			if !ok {
				continue
			}
			// only straight-line initialisation (block 0 chain)
			ref := e.globalRef(g)
			if e.globArrays[ref] == nil {
				e.globArrays[ref] = make([]string, arr.Len())
			}
			e.globArrays[ref][idx] = val
		}
	}
	for g, ref := range e.globalRefs {
		if e.mutGlobals[g] {
			delete(e.globArrays, ref)
		}
	}
	// zero-initialised entries that were never stored are zero
	for _, vals := range e.globArrays {
		for i := range vals {
			if vals[i] == "" {
				vals[i] = "0"
			}
		}
	}
}

// globalValue models loads from package-level variables that hold immutable
// interface values (sentinel errors).
func (e *Engine) globalValue(c *FnCtx, st *State, g *ssa.Global) (Val, bool) {
	t := g.Type().(*types.Pointer).Elem()
	if _, ok := t.Underlying().(*types.Interface); ok {
		if g.Pkg == e.pkg && e.mutGlobals[g] {
			return nil, false
		}
		return e.sentinelVal(g), true
	}
	return nil, false
}

func (e *Engine) sentinelVal(g *ssa.Global) Val {
	id, ok := e.sentinel[g]
	if !ok {
		id = len(e.sentinel) + 1
		e.sentinel[g] = id
	}
	// all sentinels share one dynamic type id space: type 900000+id keeps them
	// distinct from each other and from every typeID
	return VIface{fmt.Sprint(900000 + id), fmt.Sprint(id)}
}

func (e *Engine) namedConst(c *FnCtx, name string) (Val, bool) {
	pkg := e.pkg.Pkg
	if i := strings.Index(name, "."); i >= 0 {
		pname, oname := name[:i], name[i+1:]
		for _, imp := range pkg.Imports() {
			if imp.Name() == pname {
				obj := imp.Scope().Lookup(oname)
				switch o := obj.(type) {
				case *types.Const:
					if o.Val().Kind() == constant.Int {
						return VInt{numBig(o.Val().ExactString())}, true
					}
				case *types.Var:
					if sp := e.prog.Package(imp); sp != nil {
						if g, ok := sp.Members[oname].(*ssa.Global); ok {
							if _, isI := o.Type().Underlying().(*types.Interface); isI {
								return e.sentinelVal(g), true
							}
						}
					}
				}
			}
		}
		return nil, false
	}
	obj := pkg.Scope().Lookup(name)
	switch o := obj.(type) {
	case *types.Const:
		switch o.Val().Kind() {
		case constant.Int:
			return VInt{numBig(o.Val().ExactString())}, true
		case constant.String:
			return c.strConst(constant.StringVal(o.Val())), true
		}
	case *types.Var:
		if g, ok := e.pkg.Members[name].(*ssa.Global); ok {
			if _, isI := o.Type().Underlying().(*types.Interface); isI && !e.mutGlobals[g] {
				return e.sentinelVal(g), true
			}
			return VPtr{Root: rootGlobal, Glob: g, T: o.Type()}, true
		}
	}
	return nil, false
}

func constantString(k *ssa.Const) string { return constant.StringVal(k.Value) }

func realLit(k *ssa.Const) string {
	f, _ := constant.Float64Val(k.Value)
	s := fmt.Sprintf("%.10f", f)
	if strings.HasPrefix(s, "-") {
		return "(- " + s[1:] + ")"
	}
	return s
}

// srcText returns the normalised source text of the expression at pos.
func (e *Engine) srcText(pos token.Pos, in ssa.Instruction) string {
	p := e.prog.Fset.Position(pos)
	lines, ok := e.srcLines[p.Filename]
	if !ok {
		data, err := os.ReadFile(p.Filename)
		if err == nil {
			lines = strings.Split(string(data), "\n")
		}
		e.srcLines[p.Filename] = lines
	}
	if p.Line-1 >= len(lines) || p.Line < 1 {
		return "?"
	}
	line := lines[p.Line-1]
	col := p.Column - 1
	if col >= len(line) {
		return strings.TrimSpace(line)
	}
	isIdent := func(b byte) bool {
		return b == '_' || b == '.' || b >= '0' && b <= '9' || b >= 'a' && b <= 'z' || b >= 'A' && b <= 'Z'
	}
	start, end := col, col
	switch line[col] {
	case '[', '(':
		// extend left over the operand, right to the matching bracket
		for start > 0 {
			ch := line[start-1]
			if isIdent(ch) {
				start--
				continue
			}
			if ch == ']' || ch == ')' {
				d := 0
				j := start - 1
				for ; j >= 0; j-- {
					if line[j] == ']' || line[j] == ')' {
						d++
					}
					if line[j] == '[' || line[j] == '(' {
						d--
						if d == 0 {
							break
						}
					}
				}
				if j < 0 {
					break
				}
				start = j
				continue
			}
			break
		}
		d := 0
		for end = col; end < len(line); end++ {
			if line[end] == '[' || line[end] == '(' {
				d++
			}
			if line[end] == ']' || line[end] == ')' {
				d--
				if d == 0 {
					end++
					break
				}
			}
		}
	default:
		if isIdent(line[col]) {
			for start > 0 && isIdent(line[start-1]) {
				start--
			}
			for end < len(line) && isIdent(line[end]) {
				end++
			}
			// include a following call/index
			if end < len(line) && (line[end] == '(' || line[end] == '[') {
				d := 0
				for ; end < len(line); end++ {
					if line[end] == '[' || line[end] == '(' {
						d++
					}
					if line[end] == ']' || line[end] == ')' {
						d--
						if d == 0 {
							end++
							break
						}
					}
				}
			}
		} else {
			return strings.Join(strings.Fields(strings.TrimSpace(line)), " ")
		}
	}
	if end > len(line) {
		end = len(line)
	}
	return strings.Join(strings.Fields(line[start:end]), "")
}

// buildApplyAxioms links the function values of functions with an `applies` clause to their spec predicate.
func (e *Engine) buildApplyAxioms() {
	e.applyAxioms = nil
	for _, key := range e.cs.Order {
		fc := e.cs.Funcs[key]
		fn := e.funcs[key]
		if fc.Applies == "" || fn == nil {
			continue
		}
		c := e.newFnCtx(fn, &FuncContract{Key: "axiom"})
		func() {
			defer func() { recover() }()
			env := &Env{c: c, st: &State{cells: map[*ssa.Alloc]Val{}, heap: map[string]string{}, reach: "true"}, vars: map[string]Val{"r": VInt{"r"}}, noUnfold: true}
			env.old = env.st
			t := env.eval(ECall{Fn: fc.Applies, Args: []Expr{EIdent{"r"}}}).(VBool).T
			lhs := app("applyRB", fmt.Sprint(e.funcID(fn)), "r")
			e.applyAxioms = append(e.applyAxioms, fmt.Sprintf("(assert (forall ((r Int)) (! (= %s %s) :pattern (%s))))", lhs, t, lhs))
		}()
	}
}

// prelude renders the global declarations used by every query.
func (e *Engine) prelude() string {
	var b strings.Builder
	if e.needApplyRB {
		e.buildApplyAxioms()
	}
	for i, s := range e.lits {
		n := fmt.Sprintf("lit!%d", i)
		fmt.Fprintf(&b, "(declare-fun %s () %s)\n", n, sAI)
		for j := 0; j < len(s); j++ {
			fmt.Fprintf(&b, "(assert (= (select %s %d) %d))\n", n, j, s[j])
		}
	}
	if e.needBand {
		b.WriteString("(declare-fun band (Int Int) Int)\n")
		b.WriteString("(assert (forall ((a Int) (b Int)) (! (=> (and (>= a 0) (>= b 0)) (and (>= (band a b) 0) (<= (band a b) a) (<= (band a b) b))) :pattern ((band a b)))))\n")
	}
	if e.needStrLess {
		fmt.Fprintf(&b, "(declare-fun strless (%s Int Int %s Int Int) Bool)\n", sAI, sAI)
	}
	b.WriteString("(declare-fun rid (Int Int) Int)\n")
	fmt.Fprintf(&b, "(declare-fun rdS (Int) %s)\n", sAI)
	b.WriteString("(assert (forall ((r Int) (k Int)) (! (and (<= 0 (select (rdS r) k)) (<= (select (rdS r) k) 255)) :pattern ((select (rdS r) k)))))\n")
	if e.needUnicode {
		b.WriteString("(declare-fun ULetter (Int) Bool)\n(declare-fun UNumber (Int) Bool)\n")
		b.WriteString("(assert (forall ((r Int)) (! (=> (< r 128) (= (ULetter r) (or (and (<= 65 r) (<= r 90)) (and (<= 97 r) (<= r 122))))) :pattern ((ULetter r)))))\n")
		b.WriteString("(assert (forall ((r Int)) (! (=> (< r 128) (= (UNumber r) (and (<= 48 r) (<= r 57)))) :pattern ((UNumber r)))))\n")
	}
	if e.needApplyRB {
		b.WriteString("(declare-fun applyRB (Int Int) Bool)\n")
		for _, ax := range e.applyAxioms {
			b.WriteString(ax + "\n")
		}
	}
	if needElemPtr {
		b.WriteString("(declare-fun elemptr (Int Int) Int)\n(assert (forall ((b Int) (i Int)) (! (< 4611686018427387904 (elemptr b i)) :pattern ((elemptr b i)))))\n")
	}
	if e.needProto {
		b.WriteString("(declare-fun fdIsList (Int) Bool)\n(declare-fun fdIsMap (Int) Bool)\n(declare-fun fdMsg (Int) Int)\n(declare-fun valkind (Int Int Int) Int)\n(declare-fun fdOwner (Int) Int)\n")
		b.WriteString("(assert (forall ((f Int)) (! (and (>= (fdMsg f) 0) (not (and (fdIsList f) (fdIsMap f))) (=> (fdIsMap f) (not (= (fdMsg f) 0)))) :pattern ((fdMsg f)))))\n")
	}
	if e.needB64 {
		fmt.Fprintf(&b, "(declare-fun b64ok_std (%s Int Int) Bool)\n(declare-fun b64ok_raw (%s Int Int) Bool)\n", sAI, sAI)
		fmt.Fprintf(&b, "(assert (forall ((a %s) (o Int) (n Int)) (! (=> (b64ok_std a o n) (= (mod n 4) 0)) :pattern ((b64ok_std a o n)))))\n", sAI)
		fmt.Fprintf(&b, "(assert (forall ((a %s) (o Int) (n Int)) (! (=> (and (b64ok_raw a o n) (= (mod n 4) 0)) (b64ok_std a o n)) :pattern ((b64ok_raw a o n)))))\n", sAI)
	}
	if e.needStrID {
		fmt.Fprintf(&b, "(declare-fun strid (%s Int Int) Int)\n", sAI)
	}
	if e.needMapHas {
		fmt.Fprintf(&b, "(declare-fun maphas (Int %s Int Int) Bool)\n", sAI)
	}
	if e.needVarint {
		// little-endian base-128 value of the n-byte varint at a[o..]
		var terms []string
		p := "1"
		for j := 0; j < 10; j++ {
			bj := fmt.Sprintf("(select a (+ o %d))", j)
			terms = append(terms, fmt.Sprintf("(ite (< %d n) (* %s (ite (< %d (- n 1)) (- %s 128) %s)) 0)", j, p, j, bj, bj))
			p = mulDec(p, 128)
		}
		fmt.Fprintf(&b, "(define-fun varintval ((a %s) (o Int) (n Int)) Int (+ %s))\n", sAI, strings.Join(terms, " "))
	}
	if e.needDecval {
		// decimal value of the n digits at a[o..] (n <= 18), Horner form
		var sb strings.Builder
		fmt.Fprintf(&sb, "(define-fun decval ((a %s) (o Int) (n Int)) Int ", sAI)
		sb.WriteString("(let ((v0 0)) ")
		for j := 0; j < 18; j++ {
			fmt.Fprintf(&sb, "(let ((v%d (ite (< %d n) (+ (* 10 v%d) (- (select a (+ o %d)) 48)) v%d))) ", j+1, j, j, j, j)
		}
		sb.WriteString("v18")
		sb.WriteString(strings.Repeat(")", 19))
		sb.WriteString(")\n")
		b.WriteString(sb.String())
	}
	var fns []string
	for n := range e.implFns {
		fns = append(fns, n)
	}
	sort.Strings(fns)
	for _, n := range fns {
		fmt.Fprintf(&b, "(declare-fun %s (Int) Bool)\n(assert (not (%s 0)))\n", n, n)
	}
	for _, n := range sortedKeys(e.ufDecls) {
		b.WriteString(e.ufDecls[n] + "\n")
	}
	for _, n := range sortedKeys(e.recDecls) {
		b.WriteString(e.recDecls[n] + "\n")
	}
	for _, n := range sortedKeys(e.recAxioms) {
		b.WriteString(e.recAxioms[n] + "\n")
	}
	return b.String()
}

// srcLine returns the whitespace-normalised source line at pos.
func (e *Engine) srcLine(pos token.Pos) string {
	if !pos.IsValid() {
		return "end"
	}
	p := e.prog.Fset.Position(pos)
	e.srcText(pos, nil) // fills the cache
	lines := e.srcLines[p.Filename]
	if p.Line-1 >= len(lines) || p.Line < 1 {
		return "?"
	}
	line := lines[p.Line-1]
	if i := strings.Index(line, " //"); i >= 0 && !strings.Contains(line[i:], "\"") {
		line = line[:i]
	}
	return strings.Join(strings.Fields(line), " ")
}

func mulDec(s string, m int64) string {
	x := new(big.Int)
	x.SetString(s, 10)
	x.Mul(x, big.NewInt(m))
	return x.String()
}

// lookupType resolves "*pkg.Name" / "pkg.Name" / "Name" against the package and its imports.
func (e *Engine) lookupType(name string) types.Type {
	ptr := strings.HasPrefix(name, "*")
	name = strings.TrimPrefix(name, "*")
	var obj types.Object
	if i := strings.Index(name, "."); i >= 0 {
		for _, imp := range e.pkg.Pkg.Imports() {
			if imp.Name() == name[:i] {
				obj = imp.Scope().Lookup(name[i+1:])
			}
		}
	} else {
		obj = e.pkg.Pkg.Scope().Lookup(name)
	}
	tn, ok := obj.(*types.TypeName)
	if !ok {
		return nil
	}
	if ptr {
		return types.NewPointer(tn.Type())
	}
	return tn.Type()
}

// reaches reports whether from can (transitively, through static calls inside the package) call to.
func (e *Engine) reaches(from, to *ssa.Function) bool {
	seen := map[*ssa.Function]bool{}
	var dfs func(f *ssa.Function) bool
	dfs = func(f *ssa.Function) bool {
		if f == to {
			return true
		}
		if seen[f] || f.Pkg != e.pkg {
			return false
		}
		seen[f] = true
		for _, b := range f.Blocks {
			for _, in := range b.Instrs {
				if call, ok := in.(ssa.CallInstruction); ok {
					if cal := call.Common().StaticCallee(); cal != nil && dfs(cal) {
						return true
					}
				}
			}
		}
		return false
	}
	return dfs(from)
}

var tidRe = regexp.MustCompile(`tid\("([^"]+)"\)`)

// resetNeeds clears the per-function feature flags: each function's queries get a prelude with
// only the library axioms that function uses (a quantified axiom of an unrelated library model
// in a shared prelude turned proved goals of other functions into "unknown").
func (e *Engine) resetNeeds() {
	e.needBand, e.needStrLess, e.needVarint, e.needProto, e.needStrID, e.needB64 = false, false, false, false, false, false
	e.needMapHas, e.needApplyRB, e.needUnicode, e.needDecval = false, false, false, false
	needElemPtr = false
}

// usesDyn reports whether a function's contract (directly or through spec functions) speaks about
// dynamic type tags; only those functions carry the tags (they cost a store per allocation and an
// implication per pointer load).
func (e *Engine) usesDyn(fc *FuncContract) bool {
	if e.dynSpecs == nil {
		e.dynSpecs = map[string]bool{}
		direct := func(t string) bool { return strings.Contains(t, "dyn(") || strings.Contains(t, "tid(") }
		for changed := true; changed; {
			changed = false
			for n, sf := range e.cs.Specs {
				if e.dynSpecs[n] {
					continue
				}
				hit := direct(sf.Text)
				for d := range e.dynSpecs {
					if strings.Contains(sf.Text, d+"(") {
						hit = true
					}
				}
				if hit {
					e.dynSpecs[n] = true
					changed = true
				}
			}
		}
	}
	texts := []string{}
	for _, cl := range fc.Clauses {
		texts = append(texts, cl.Text)
	}
	for _, g := range fc.Ghosts {
		texts = append(texts, g.Text)
	}
	for _, t := range texts {
		if strings.Contains(t, "dyn(") || strings.Contains(t, "tid(") {
			return true
		}
		for d := range e.dynSpecs {
			if strings.Contains(t, d+"(") {
				return true
			}
		}
	}
	return false
}

// allocsTracked reports whether fn, or a function of this package it statically calls, may
// allocate an object of a struct type that carries a dynamic type tag.
func (e *Engine) allocsTracked(fn *ssa.Function) bool {
	if e.allocMemo == nil {
		e.allocMemo = map[*ssa.Function]int{}
	}
	switch e.allocMemo[fn] {
	case 1:
		return true
	case 2, 3:
		return false // (3 = in progress: cycles add nothing)
	}
	e.allocMemo[fn] = 3
	res := false
	for _, b := range fn.Blocks {
		for _, in := range b.Instrs {
			switch in := in.(type) {
			case *ssa.Alloc:
				if in.Heap && e.dynTag(in.Type().(*types.Pointer).Elem()) != "" {
					res = true
				}
			case ssa.CallInstruction:
				if callee := in.Common().StaticCallee(); callee != nil && callee.Pkg == e.pkg && callee.Blocks != nil {
					if e.allocsTracked(callee) {
						res = true
					}
				}
			}
		}
	}
	for _, af := range fn.AnonFuncs {
		if e.allocsTracked(af) {
			res = true
		}
	}
	if res {
		e.allocMemo[fn] = 1
	} else {
		e.allocMemo[fn] = 2
	}
	return res
}

// ensuresDynInvariant: some postcondition of the contract speaks about the tagged objects
// (a representation invariant such as TrieOk()).
func (e *Engine) ensuresDynInvariant(fc *FuncContract) bool {
	e.usesDyn(fc) // fills dynSpecs
	for _, cl := range fc.Clauses {
		if cl.Kind != "ensures" {
			continue
		}
		if strings.Contains(cl.Text, "dyn(") {
			return true
		}
		for d := range e.dynSpecs {
			if strings.Contains(cl.Text, d+"(") {
				return true
			}
		}
	}
	return false
}

// dynTag: the tag stored in G$dyn.type for objects of struct type t ("" if untracked).
func (e *Engine) dynTag(t types.Type) string {
	if _, ok := t.Underlying().(*types.Struct); !ok {
		return ""
	}
	if n := typeName(t); e.dynTypes[n] {
		return fmt.Sprint(e.typeID(t))
	}
	return ""
}

func (e *Engine) isImmutable(family string) bool {
	if strings.HasPrefix(family, "G$dyn.") {
		return true // the dynamic type of an object never changes
	}
	for _, im := range e.cs.Immutables {
		if strings.HasPrefix(family, im.Prefix) {
			return true
		}
	}
	return false
}

// checkImmutables scans the package for stores into families declared immutable.
func (e *Engine) checkImmutables() error {
	if len(e.cs.Immutables) == 0 {
		return nil
	}
	dummy := e.newFnCtx(nil, &FuncContract{Key: "scan"})
	for key, fn := range e.funcs {
		for _, b := range fn.Blocks {
			for _, in := range b.Instrs {
				st, ok := in.(*ssa.Store)
				if !ok {
					continue
				}
				if _, isField := st.Addr.(*ssa.FieldAddr); !isField {
					continue
				}
				if freshRoot(st.Addr) {
					continue // initialisation of an object allocated right here
				}
				fam := dummy.staticFamily(st.Addr)
				for _, im := range e.cs.Immutables {
					if strings.HasPrefix(fam, im.Prefix) && key != im.Except {
						return fmt.Errorf("immutable %s: %s stores to %s at %s", im.Prefix, key, fam, e.prog.Fset.Position(st.Pos()))
					}
				}
			}
		}
	}
	return nil
}


// detApp applies the uninterpreted functions standing for a deterministic library call.
func (e *Engine) detApp(d *DetFunc, leaves, sorts []string) []string {
	var rs []string
	switch d.Kind {
	case "string":
		rs = []string{sAI, sInt, sInt}
	case "iface":
		rs = []string{sInt, sInt}
	case "bool":
		rs = []string{sBool}
	case "int":
		rs = []string{sInt}
	}
	var out []string
	for i, r := range rs {
		fn := fmt.Sprintf("det$%s$%d", d.Name, i)
		decl := fmt.Sprintf("(declare-fun %s (%s) %s)", fn, strings.Join(sorts, " "), r)
		if old, ok := e.ufDecls[fn]; ok && old != decl {
			panic(specErr{fmt.Sprintf("det %s applied to arguments of different shapes", d.Name)})
		}
		e.ufDecls[fn] = decl
		out = append(out, app(fn, leaves...))
	}
	return out
}
