package main

// Evaluation of contract expressions to symbolic values.

import (
	"fmt"
	"os"
	"go/types"
	"strings"

	"golang.org/x/tools/go/ssa"
)

type Env struct {
	c     *FnCtx
	st    *State
	old   *State
	vars  map[string]Val
	cells bool          // identifiers may name local variables of fn (current state)
	fn    *ssa.Function // the function whose names are in scope
	inOld bool
	prev  *State // loop-head state for step clauses
	depth int
	unfold int  // recursive-function unfoldings on this path
	noUnfold bool
	fvs  map[string]VPtr // captured variables of a closure callee: names denote the cell contents in e.st
}

func (e *Env) with(vars map[string]Val) *Env {
	n := *e
	n.vars = map[string]Val{}
	for k, v := range e.vars {
		n.vars[k] = v
	}
	for k, v := range vars {
		n.vars[k] = v
	}
	return &n
}

type specErr struct{ msg string }

func (e specErr) Error() string { return "spec: " + e.msg }

func sfail(format string, a ...any) {
	if os.Getenv("GOVC_DEBUG") != "" {
		panic(fmt.Sprintf(format, a...))
	}
	panic(specErr{fmt.Sprintf(format, a...)})
}

func (e *Env) evalBool(x Expr) string {
	v := e.eval(x)
	b, ok := v.(VBool)
	if !ok {
		sfail("expected Bool, got %T in %s", v, x)
	}
	return b.T
}

func (e *Env) evalInt(x Expr) string {
	v := e.eval(x)
	switch v := v.(type) {
	case VInt:
		return v.T
	case VPtr:
		if v.Root == rootObj && len(v.Path) == 0 {
			return v.Ref
		}
	case VOpaque:
		return v.T
	}
	sfail("expected Int, got %T in %s", v, x)
	return ""
}

// findCell resolves a source-level variable name to a local cell of fn.
func (c *FnCtx) findCell(fn *ssa.Function, name string) *ssa.Alloc {
	want := 1
	base := name
	if i := strings.Index(name, "#"); i >= 0 {
		fmt.Sscanf(name[i+1:], "%d", &want)
		base = name[:i]
	}
	var cands []*ssa.Alloc
	for _, b := range fn.Blocks {
		for _, in := range b.Instrs {
			if a, ok := in.(*ssa.Alloc); ok && a.Comment == base {
				cands = append(cands, a)
			}
		}
	}
	// order by source position
	for i := 0; i < len(cands); i++ {
		for j := i + 1; j < len(cands); j++ {
			if cands[j].Pos() < cands[i].Pos() {
				cands[i], cands[j] = cands[j], cands[i]
			}
		}
	}
	if want <= len(cands) {
		return cands[want-1]
	}
	return nil
}

func (e *Env) lookup(name string) (Val, bool) {
	if v, ok := e.vars[name]; ok {
		return v, true
	}
	c := e.c
	if p, ok := e.fvs[name]; ok {
		return c.loadQuiet(e.st, p), true
	}
	if e.fn == c.fn {
		if p, ok := c.fvs[name]; ok {
			return c.loadQuiet(e.st, p), true
		}
		if t, ok := e.st.ghostInts[name]; ok {
			return VInt{t}, true
		}
		if v, ok := c.ghosts[name]; ok {
			return v, true
		}
		if e.inOld || !e.cells {
			if v, ok := c.params[name]; ok {
				return v, true
			}
		}
		if e.cells {
			if a := c.findCell(e.fn, name); a != nil {
				st := e.st
				if p, ok := c.vals[a].(VPtr); ok {
					return c.loadQuiet(st, p), true
				}
				return nil, false
			}
		}
		if v, ok := c.params[name]; ok {
			return v, true
		}
	}
	if n, ok := c.eng.cs.Consts[name]; ok {
		return VInt{numBig(n)}, true
	}
	if v, ok := c.eng.namedConst(c, name); ok {
		return v, true
	}
	return nil, false
}

// loadQuiet loads without naming or assuming anything (for specs).
func (c *FnCtx) loadQuiet(st *State, p VPtr) Val {
	if p.Root == rootLocal {
		return c.load(st, p, 0)
	}
	fam, idx, t := c.addrFamily(p)
	v := c.valFromLeaves(t, fam, func(name, sort string) string {
		m := c.heapGet(st, name, mapSort(len(idx), sort))
		return selN(m, idx)
	})
	// values in memory satisfy their type invariant (ranges, 0 <= len <= cap ...)
	if inv := c.typeInv(st, v, t); inv != "true" && !strings.Contains(inv, "q.") {
		if !c.declared["tinv:"+inv] {
			c.declared["tinv:"+inv] = true
			c.assert(inv)
		}
	}
	return v
}

func (e *Env) eval(x Expr) Val {
	c := e.c
	switch x := x.(type) {
	case ENum:
		return VInt{numBig(x.V)}
	case EBool:
		if x.V {
			return VBool{"true"}
		}
		return VBool{"false"}
	case EStr:
		return c.strConst(x.V)
	case ENil:
		return VInt{"0"}
	case EIdent:
		v, ok := e.lookup(x.Name)
		if !ok {
			sfail("unknown identifier %q", x.Name)
		}
		return v
	case EUn:
		switch x.Op {
		case "!":
			return VBool{not(e.evalBool(x.X))}
		case "-":
			return VInt{app("-", e.evalInt(x.X))}
		case "&":
			id, ok := x.X.(EIdent)
			if !ok || e.fn != c.fn {
				sfail("& needs a local variable name")
			}
			a := c.findCell(c.fn, id.Name)
			if a == nil {
				sfail("no local variable %s", id.Name)
			}
			p, ok := c.vals[a].(VPtr)
			if !ok {
				sfail("variable %s is not allocated here", id.Name)
			}
			return p
		}
	case ECond:
		cnd := e.evalBool(x.C)
		a, b := e.eval(x.A), e.eval(x.B)
		return iteVal(cnd, a, b)
	case EBin:
		return e.evalBin(x)
	case EQuant:
		vars := map[string]Val{}
		var decl []string
		for _, v := range x.Vars {
			n := c.fresh("q." + v)
			vars[v] = VInt{n}
			decl = append(decl, "("+n+" Int)")
		}
		inner := e.with(vars)
		body := inner.evalBool(x.Body)
		q := "exists"
		if x.Forall {
			q = "forall"
		}
		if len(x.Pats) > 0 {
			var pts []string
			for _, pe := range x.Pats {
				pts = append(pts, flatten(inner.eval(pe))...)
			}
			ann := fmt.Sprintf(":pattern (%s)", strings.Join(pts, " "))
			for _, g := range x.Alts {
				var gp []string
				for _, pe := range g {
					gp = append(gp, flatten(inner.eval(pe))...)
				}
				ann += fmt.Sprintf(" :pattern (%s)", strings.Join(gp, " "))
			}
			body = fmt.Sprintf("(! %s %s)", body, ann)
		}
		return VBool{fmt.Sprintf("(%s (%s) %s)", q, strings.Join(decl, " "), body)}
	case EIndex:
		base := e.eval(x.X)
		i := e.evalInt(x.I)
		return e.index(base, i, x)
	case ESlice:
		base := e.eval(x.X)
		lo, hi := "0", ""
		if x.Lo != nil {
			lo = e.evalInt(x.Lo)
		}
		switch b := base.(type) {
		case VStr:
			if x.Hi != nil {
				hi = e.evalInt(x.Hi)
			} else {
				hi = b.Len
			}
			return VStr{b.Arr, plus(b.Off, lo), minus(hi, lo)}
		case VSlice:
			if x.Hi != nil {
				hi = e.evalInt(x.Hi)
			} else {
				hi = b.Len
			}
			return VSlice{b.Base, plus(b.Off, lo), minus(hi, lo), minus(b.Cap, lo), b.Elem, b.Reg}
		}
		sfail("cannot slice %T", base)
	case EField:
		// qualified constant?
		if id, ok := x.X.(EIdent); ok {
			if _, isVar := e.lookup(id.Name); !isVar {
				if v, ok := c.eng.namedConst(c, id.Name+"."+x.F); ok {
					return v
				}
			}
		}
		base := e.eval(x.X)
		return e.field(base, x.F, x)
	case ECall:
		return e.call(x)
	}
	sfail("cannot evaluate %s", x)
	return nil
}

func iteVal(cnd string, a, b Val) Val {
	ta, tb := flatten(a), flatten(b)
	if len(ta) != len(tb) {
		sfail("conditional branches differ in shape")
	}
	out := make([]string, len(ta))
	for i := range ta {
		out[i] = ite(cnd, ta[i], tb[i])
	}
	v, _ := rebuild(a, out)
	return v
}

func (e *Env) index(base Val, i string, x Expr) Val {
	c := e.c
	switch b := base.(type) {
	case VStr:
		return VInt{strAt(b, i)}
	case VSlice:
		p := VPtr{Root: rootElem, Ref: b.Base, Idx: plus(b.Off, i), T: b.Elem, Reg: b.Reg}
		return c.loadQuiet(e.st, p)
	case VPtr:
		// pointer to array
		if arr, ok := b.T.Underlying().(*types.Array); ok {
			p := VPtr{Root: rootElem, Ref: c.arrayBase(b), Idx: i, T: arr.Elem()}
			return c.loadQuiet(e.st, p)
		}
		if len(b.Path) > 0 {
			ft := fieldType(b)
			if arr, ok := ft.Underlying().(*types.Array); ok {
				p := VPtr{Root: rootElem, Ref: c.arrayBase(b), Idx: i, T: arr.Elem()}
				return c.loadQuiet(e.st, p)
			}
		}
	}
	sfail("cannot index %T in %s", base, x)
	return nil
}

func fieldType(p VPtr) types.Type {
	t := p.T
	for _, f := range p.Path {
		t = t.Underlying().(*types.Struct).Field(f).Type()
	}
	return t
}

func (e *Env) field(base Val, name string, x Expr) Val {
	c := e.c
	switch b := base.(type) {
	case VStruct:
		for i := 0; i < b.T.NumFields(); i++ {
			if b.T.Field(i).Name() == name {
				return b.F[i]
			}
		}
	case VPtr:
		t := fieldType(b)
		st, ok := t.Underlying().(*types.Struct)
		if !ok {
			sfail("field %s of non-struct pointer in %s", name, x)
		}
		for i := 0; i < st.NumFields(); i++ {
			if st.Field(i).Name() == name {
				np := b
				np.Path = append(append([]int(nil), b.Path...), i)
				if _, isArr := st.Field(i).Type().Underlying().(*types.Array); isArr {
					return np // pointer to the array field; index/len handle it
				}
				return c.loadQuiet(e.st, np)
			}
		}
	case VStr:
		switch name {
		case "len":
			return VInt{b.Len}
		}
	}
	sfail("no field %s in %T (%s)", name, base, x)
	return nil
}

func (e *Env) evalBin(x EBin) Val {
	c := e.c
	switch x.Op {
	case "&&":
		return VBool{and(e.evalBool(x.X), e.evalBool(x.Y))}
	case "||":
		return VBool{or(e.evalBool(x.X), e.evalBool(x.Y))}
	case "==>":
		return VBool{implies(e.evalBool(x.X), e.evalBool(x.Y))}
	case "<==>":
		return VBool{eq(e.evalBool(x.X), e.evalBool(x.Y))}
	case "==", "!=":
		a, b := e.eval(x.X), e.eval(x.Y)
		r := e.valEq(a, b, x)
		if x.Op == "!=" {
			r = not(r)
		}
		return VBool{r}
	case "<", "<=", ">", ">=":
		a, b := e.eval(x.X), e.eval(x.Y)
		_, ra := a.(VReal)
		_, rb := b.(VReal)
		if ra || rb {
			// comparison over the reals (an integer operand is converted)
			tr := func(v Val) string {
				switch v := v.(type) {
				case VReal:
					return v.T
				case VInt:
					return app("to_real", v.T)
				}
				sfail("real comparison with %T", v)
				return ""
			}
			return VBool{app(x.Op, tr(a), tr(b))}
		}
		return VBool{app(x.Op, e.evalInt(x.X), e.evalInt(x.Y))}
	case "+":
		a := e.eval(x.X)
		if _, isReal := a.(VReal); isReal {
			return VReal{app("+", a.(VReal).T, e.eval(x.Y).(VReal).T)}
		}
		return VInt{plus(e.evalInt(x.X), e.evalInt(x.Y))}
	case "-":
		return VInt{minus(e.evalInt(x.X), e.evalInt(x.Y))}
	case "*":
		return VInt{app("*", e.evalInt(x.X), e.evalInt(x.Y))}
	case "/":
		return VInt{app("div", e.evalInt(x.X), e.evalInt(x.Y))}
	case "%":
		return VInt{app("mod", e.evalInt(x.X), e.evalInt(x.Y))}
	case "&":
		return VInt{c.eng.bitAnd(e.evalInt(x.X), e.evalInt(x.Y))}
	case "|":
		a, b := e.evalInt(x.X), e.evalInt(x.Y)
		return VInt{minus(plus(a, b), c.eng.bitAnd(a, b))}
	case "<<":
		b := e.evalInt(x.Y)
		if n, ok := parseLit(b); ok && n < 63 {
			return VInt{app("*", e.evalInt(x.X), fmt.Sprint(uint64(1)<<n))}
		}
	case ">>":
		b := e.evalInt(x.Y)
		if n, ok := parseLit(b); ok && n < 63 {
			return VInt{app("div", e.evalInt(x.X), fmt.Sprint(uint64(1)<<n))}
		}
	}
	sfail("bad binary %s", x)
	return nil
}

func (e *Env) valEq(a, b Val, x Expr) string {
	c := e.c
	switch a := a.(type) {
	case VBool:
		if bb, ok := b.(VBool); ok {
			return eq(a.T, bb.T)
		}
	case VReal:
		if bb, ok := b.(VReal); ok {
			return eq(a.T, bb.T)
		}
	case VStr:
		if bb, ok := b.(VStr); ok {
			return c.strEq(a, bb)
		}
	case VIface:
		switch bb := b.(type) {
		case VIface:
			return and(eq(a.Typ, bb.Typ), eq(a.Pay, bb.Pay))
		case VInt:
			if bb.T == "0" {
				return eq(a.Typ, "0")
			}
		}
	case VSlice:
		switch bb := b.(type) {
		case VInt:
			if bb.T == "0" {
				return eq(a.Base, "0")
			}
		case VSlice:
			return and(eq(a.Base, bb.Base), eq(a.Off, bb.Off), eq(a.Len, bb.Len), eq(a.Cap, bb.Cap))
		}
	case VInt:
		switch bb := b.(type) {
		case VInt:
			return eq(a.T, bb.T)
		case VPtr:
			if bb.Root == rootObj && len(bb.Path) == 0 {
				return eq(a.T, bb.Ref)
			}
		case VIface:
			if a.T == "0" {
				return eq(bb.Typ, "0")
			}
		case VSlice:
			if a.T == "0" {
				return eq(bb.Base, "0")
			}
		case VOpaque:
			return eq(a.T, bb.T)
		}
	case VOpaque:
		switch bb := b.(type) {
		case VInt:
			return eq(a.T, bb.T)
		case VOpaque:
			return eq(a.T, bb.T)
		}
	case VPtr:
		if a.Root == rootObj && len(a.Path) > 0 {
			// interior pointer: nil exactly when the object pointer is nil (Go would already have panicked)
			if bb, ok := b.(VInt); ok && bb.T == "0" {
				return eq(a.Ref, "0")
			}
		}
		if a.Root == rootObj && len(a.Path) == 0 {
			switch bb := b.(type) {
			case VInt:
				return eq(a.Ref, bb.T)
			case VPtr:
				if bb.Root == rootObj && len(bb.Path) == 0 {
					return eq(a.Ref, bb.Ref)
				}
			}
		}
	case VStruct:
		if bb, ok := b.(VStruct); ok && len(a.F) == len(bb.F) {
			var parts []string
			for i := range a.F {
				if a.F[i] == nil {
					continue
				}
				parts = append(parts, e.valEq(a.F[i], bb.F[i], x))
			}
			return and(parts...)
		}
	}
	sfail("cannot compare %T with %T in %s", a, b, x)
	return ""
}

func (e *Env) call(x ECall) Val {
	c := e.c
	if d := c.eng.cs.DetNames[x.Fn]; d != nil {
		var leaves, sorts []string
		for _, a := range x.Args {
			v := e.eval(a)
			leaves = append(leaves, flatten(v)...)
			sorts = append(sorts, leafSorts(v)...)
		}
		r := c.eng.detApp(d, leaves, sorts)
		switch d.Kind {
		case "string":
			return VStr{r[0], r[1], r[2]}
		case "iface":
			return VIface{r[0], r[1]}
		case "bool":
			return VBool{r[0]}
		}
		return VInt{r[0]}
	}
	switch x.Fn {
	case "len":
		v := e.eval(x.Args[0])
		switch v := v.(type) {
		case VStr:
			return VInt{v.Len}
		case VSlice:
			return VInt{v.Len}
		case VPtr:
			if arr, ok := fieldType(v).Underlying().(*types.Array); ok {
				return VInt{fmt.Sprint(arr.Len())}
			}
		}
		sfail("len of %T in %s: %+v", v, x, v)
	case "maplen": // number of entries of a map (a function of the map and the map heap)
		m := e.evalInt(x.Args[0])
		n := sel(c.heapGet(e.st, "M$len", arrSort(sInt)), m)
		if mt := e.mapType(x.Args[0]); mt != nil && c.mapKeyOK(mt) && !strings.Contains(m, "q.") {
			// a map with a key is not empty (fact about every well-formed map heap)
			q := c.fresh("lk")
			h := sel(c.heapGet(e.st, mapFamH(mt), mapSort(2, sBool)), m)
			c.assert(fmt.Sprintf("(forall ((%s Int)) (! (=> (select %s %s) (< 0 %s)) :pattern ((select %s %s))))", q, h, q, n, h, q))
		}
		return VInt{n}
	case "cap":
		v := e.eval(x.Args[0])
		if s, ok := v.(VSlice); ok {
			return VInt{s.Cap}
		}
		sfail("cap of %T", v)
	case "old":
		n := *e
		n.st = e.old
		n.inOld = true
		return n.eval(x.Args[0])
	case "prev": // value at the head of the current loop iteration (step clauses)
		if e.prev == nil {
			sfail("prev() outside a loop step clause")
		}
		n := *e
		n.st = e.prev
		return n.eval(x.Args[0])
	case "frame_elems": // frame_elems(s): every backing array other than s's is unchanged since old()
		var base string
		var elem types.Type
		switch v := e.eval(x.Args[0]).(type) {
		case VSlice:
			base, elem = v.Base, v.Elem
		case VPtr:
			if arr, ok := fieldType(v).Underlying().(*types.Array); ok {
				base, elem = c.arrayBase(v), arr.Elem()
			}
		}
		if base == "" {
			sfail("frame_elems: need a slice or array")
		}
		var parts []string
		for _, l := range c.elemLeaves(elem) {
			ms := mapSort(2, l.sort)
			now, old := c.heapGet(e.st, l.suffix, ms), c.heapGet(e.old, l.suffix, ms)
			b := c.fresh("q.b")
			parts = append(parts, fmt.Sprintf("(forall ((%s Int)) (! (=> (not (= %s %s)) (= (select %s %s) (select %s %s))) :pattern ((select %s %s))))", b, b, base, now, b, old, b, now, b))
		}
		return VBool{and(parts...)}
	case "isfresh": // the slice's backing array was allocated after the old() state
		switch v := e.eval(x.Args[0]).(type) {
		case VSlice:
			return VBool{le(e.old.nextRef, v.Base)}
		case VPtr: // object allocated after the old() state
			if v.Root == rootObj && len(v.Path) == 0 {
				return VBool{le(e.old.nextRef, v.Ref)}
			}
		case VInt: // map (or other reference) allocated after the old() state
			return VBool{le(e.old.nextRef, v.T)}
		}
	case "dyn": // dyn(p): the dynamic type tag of the object p refers to (set when it is allocated)
		return VInt{sel(c.heapGet(e.st, "G$dyn.type", arrSort(sInt)), e.evalInt(x.Args[0]))}
	case "tid": // tid("T"): the tag of struct type T
		if lit, ok := x.Args[0].(EStr); ok {
			t := c.eng.lookupType(lit.V)
			if t == nil {
				sfail("tid: unknown type %s", lit.V)
			}
			c.eng.dynTypes[typeName(t)] = true
			return VInt{fmt.Sprint(c.eng.typeID(t))}
		}
	case "allocated": // the object / backing array / map exists in the current state (its reference is below the allocation counter)
		switch v := e.eval(x.Args[0]).(type) {
		case VSlice:
			return VBool{lt(v.Base, e.st.nextRef)}
		case VPtr:
			if v.Root == rootObj && len(v.Path) == 0 {
				return VBool{lt(v.Ref, e.st.nextRef)}
			}
		case VInt:
			return VBool{lt(v.T, e.st.nextRef)}
		}
	case "ptr": // ptr(r, "T"): the Int r viewed as a pointer to a T
		if lit, ok := x.Args[1].(EStr); ok {
			t := c.eng.lookupType(lit.V)
			if t == nil {
				sfail("ptr: unknown type %s", lit.V)
			}
			return VPtr{Root: rootObj, Ref: e.evalInt(x.Args[0]), T: t}
		}
	case "gf": // gf(p, "name"): ghost Int field of the object p points to
		if lit, ok := x.Args[1].(EStr); ok {
			return VInt{sel(c.heapGet(e.st, "G$gf."+lit.V, arrSort(sInt)), e.evalInt(x.Args[0]))}
		}
	case "gfa": // gfa(p, "name", i): element i of a ghost Int array attached to the object p points to
		if lit, ok := x.Args[1].(EStr); ok {
			return VInt{selN(c.heapGet(e.st, "G$gfa."+lit.V, mapSort(2, sInt)), []string{e.evalInt(x.Args[0]), e.evalInt(x.Args[2])})}
		}
	case "at": // element of a slice at an absolute index of its backing array
		if s, ok := e.eval(x.Args[0]).(VSlice); ok {
			p := VPtr{Root: rootElem, Ref: s.Base, Idx: e.evalInt(x.Args[1]), T: s.Elem, Reg: s.Reg}
			return c.loadQuiet(e.st, p)
		}
		sfail("at: not a slice")
	case "int", "int8", "int16", "int32", "int64", "uint", "uint8", "uint16", "uint32", "uint64", "byte", "rune":
		return VInt{e.evalInt(x.Args[0])}
	case "tab":
		// tab(i, v0, v1, ...): v_i, else the last
		i := e.evalInt(x.Args[0])
		out := e.evalInt(x.Args[len(x.Args)-1])
		for k := len(x.Args) - 2; k >= 1; k-- {
			out = ite(eq(i, fmt.Sprint(k-1)), e.evalInt(x.Args[k]), out)
		}
		return VInt{out}
	case "min":
		a, b := e.evalInt(x.Args[0]), e.evalInt(x.Args[1])
		return VInt{ite(le(a, b), a, b)}
	case "max":
		a, b := e.evalInt(x.Args[0]), e.evalInt(x.Args[1])
		return VInt{ite(le(a, b), b, a)}
	case "base":
		switch s := e.eval(x.Args[0]).(type) {
		case VSlice:
			return VInt{s.Base}
		case VPtr:
			if _, ok := fieldType(s).Underlying().(*types.Array); ok {
				return VInt{c.arrayBase(s)}
			}
		}
	case "off":
		switch s := e.eval(x.Args[0]).(type) {
		case VSlice:
			return VInt{s.Off}
		case VStr:
			return VInt{s.Off}
		}
	case "typeof":
		if i, ok := e.eval(x.Args[0]).(VIface); ok {
			return VInt{i.Typ}
		}
	case "same": // identical representation (for strings: same backing array, offset and length)
		a, b := flatten(e.eval(x.Args[0])), flatten(e.eval(x.Args[1]))
		if len(a) != len(b) {
			sfail("same: different shapes")
		}
		var parts []string
		for i := range a {
			parts = append(parts, eq(a[i], b[i]))
		}
		return VBool{and(parts...)}
	case "strlt": // the string order used by Go's < (uninterpreted)
		a, aok := e.eval(x.Args[0]).(VStr)
		b, bok := e.eval(x.Args[1]).(VStr)
		if aok && bok {
			c.eng.needStrLess = true
			return VBool{app("strless", a.Arr, a.Off, a.Len, b.Arr, b.Off, b.Len)}
		}
	case "isnil":
		v := e.eval(x.Args[0])
		return VBool{e.valEq(v, VInt{"0"}, x)}
	}
	if v, ok := c.eng.ghostCall(e, x); ok {
		return v
	}
	// spec function (macro or recursive)
	if sf, ok := c.eng.cs.Specs[x.Fn]; ok {
		if len(sf.Params) != len(x.Args) {
			sfail("%s: expected %d arguments", x.Fn, len(sf.Params))
		}
		args := make([]Val, len(x.Args))
		for i, a := range x.Args {
			args[i] = e.eval(a)
		}
		if sf.Rec {
			return c.eng.recApp(e, sf, args)
		}
		if sf.Opaque {
			return c.eng.predApp(e, sf, args)
		}
		if e.depth > 40 {
			sfail("spec function expansion too deep at %s", x.Fn)
		}
		vars := map[string]Val{}
		for i, p := range sf.Params {
			vars[p] = args[i]
		}
		n := &Env{c: e.c, st: e.st, old: e.old, prev: e.prev, vars: vars, cells: false, fn: nil, depth: e.depth + 1, unfold: e.unfold, noUnfold: e.noUnfold}
		return n.eval(sf.Body)
	}
	sfail("unknown spec function %s", x.Fn)
	return nil
}

// mapType finds the static map type of a spec expression (a struct field, a local
// variable or parameter of the function in scope, possibly under old()).
func (e *Env) mapType(x Expr) *types.Map {
	fieldOf := func(st *types.Struct, name string) *types.Map {
		for i := 0; i < st.NumFields(); i++ {
			if st.Field(i).Name() == name {
				return mapTypeOf(st.Field(i).Type())
			}
		}
		return nil
	}
	switch x := x.(type) {
	case EField:
		switch b := e.eval(x.X).(type) {
		case VPtr:
			if st, ok := fieldType(b).Underlying().(*types.Struct); ok {
				return fieldOf(st, x.F)
			}
		case VStruct:
			return fieldOf(b.T, x.F)
		}
	case EIdent:
		if e.fn != nil {
			if a := e.c.findCell(e.fn, x.Name); a != nil {
				return mapTypeOf(a.Type().(*types.Pointer).Elem())
			}
			for _, p := range e.fn.Params {
				if p.Name() == x.Name {
					return mapTypeOf(p.Type())
				}
			}
			for _, p := range e.fn.FreeVars {
				if p.Name() == x.Name {
					return mapTypeOf(p.Type().(*types.Pointer).Elem())
				}
			}
		}
	case ECall:
		if x.Fn == "old" && len(x.Args) == 1 {
			return e.mapType(x.Args[0])
		}
	}
	return nil
}
