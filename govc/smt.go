package main

// SMT-LIB term construction helpers and solver driver.

import (
	"sort"
	"bytes"
	"context"
	"fmt"
	"os"
	"os/exec"
	"path/filepath"
	"regexp"
	"strings"
	"sync/atomic"
	"time"
)

const (
	sInt  = "Int"
	sBool = "Bool"
	sReal = "Real"
	sAI   = "(Array Int Int)"
)

func arrSort(elem string) string { return "(Array Int " + elem + ")" }

func app(op string, args ...string) string {
	return "(" + op + " " + strings.Join(args, " ") + ")"
}

func num(n int64) string {
	if n < 0 {
		return fmt.Sprintf("(- %d)", -n)
	}
	return fmt.Sprintf("%d", n)
}

func numBig(s string) string { // decimal string, maybe negative
	if strings.HasPrefix(s, "-") {
		return "(- " + s[1:] + ")"
	}
	return s
}

func and(xs ...string) string {
	var ys []string
	for _, x := range xs {
		if x == "true" || x == "" {
			continue
		}
		if x == "false" {
			return "false"
		}
		ys = append(ys, x)
	}
	switch len(ys) {
	case 0:
		return "true"
	case 1:
		return ys[0]
	}
	return app("and", ys...)
}

func or(xs ...string) string {
	var ys []string
	for _, x := range xs {
		if x == "false" || x == "" {
			continue
		}
		if x == "true" {
			return "true"
		}
		ys = append(ys, x)
	}
	switch len(ys) {
	case 0:
		return "false"
	case 1:
		return ys[0]
	}
	return app("or", ys...)
}

func not(x string) string {
	switch x {
	case "true":
		return "false"
	case "false":
		return "true"
	}
	if strings.HasPrefix(x, "(not ") && balancedTail(x[5:len(x)-1]) {
		return x[5 : len(x)-1]
	}
	return app("not", x)
}

func balancedTail(s string) bool {
	d := 0
	for i, c := range s {
		switch c {
		case '(':
			d++
		case ')':
			d--
			if d == 0 && i != len(s)-1 {
				return false
			}
			if d < 0 {
				return false
			}
		case ' ':
			if d == 0 {
				return false
			}
		}
	}
	return d == 0
}

func implies(a, b string) string {
	if a == "true" {
		return b
	}
	if b == "true" || a == "false" {
		return "true"
	}
	return app("=>", a, b)
}

func ite(c, a, b string) string {
	if c == "true" {
		return a
	}
	if c == "false" {
		return b
	}
	if a == b {
		return a
	}
	return app("ite", c, a, b)
}

func eq(a, b string) string {
	if a == b {
		return "true"
	}
	return app("=", a, b)
}

func sel(a, i string) string      { return app("select", a, i) }
func sto(a, i, v string) string   { return app("store", a, i, v) }
func plus(a, b string) string {
	if a == "0" {
		return b
	}
	if b == "0" {
		return a
	}
	return app("+", a, b)
}
func minus(a, b string) string {
	if b == "0" {
		return a
	}
	return app("-", a, b)
}
func le(a, b string) string { return app("<=", a, b) }
func lt(a, b string) string { return app("<", a, b) }

// ---------------------------------------------------------------------------
// Solver driver

type solverSpec struct {
	name string
	argv func(file string, timeoutS int) []string
	// cvc5 cannot take z3 lambda terms
	noLambda bool
}

var solvers = []solverSpec{
	{name: "z3-4.8.12", argv: func(f string, t int) []string {
		return []string{"/usr/bin/z3", fmt.Sprintf("-T:%d", t), f}
	}},
	{name: "z3-5.1.0", argv: func(f string, t int) []string {
		return []string{"z3-new", fmt.Sprintf("-T:%d", t), f}
	}},
	{name: "cvc5-1.0.3", noLambda: true, argv: func(f string, t int) []string {
		return []string{"/usr/bin/cvc5", "--lang=smt2", fmt.Sprintf("--tlimit=%d", t*1000), f}
	}},
}

type solveResult struct {
	status string // unsat | sat | unknown | timeout | error
	solver string
	timeS  float64
	output string
}

var queryCounter int64

// runSolver runs one solver on the query text.
func runSolver(ctx context.Context, sp solverSpec, dir, text string, timeoutS int) solveResult {
	id := atomic.AddInt64(&queryCounter, 1)
	file := filepath.Join(dir, fmt.Sprintf("q%d_%s.smt2", id, sp.name))
	if err := os.WriteFile(file, []byte(text), 0o644); err != nil {
		return solveResult{status: "error", solver: sp.name, output: err.Error()}
	}
	defer os.Remove(file)
	argv := sp.argv(file, timeoutS)
	var o string
	var dt float64
	timedOut := false
	if worker != nil {
		r := worker.run(ctx, argv, timeoutS+2)
		o, dt, timedOut = r.Output, r.TimeS, r.TimedOut
	} else {
		cctx, cancel := context.WithTimeout(ctx, time.Duration(timeoutS+2)*time.Second)
		defer cancel()
		cmd := exec.CommandContext(cctx, argv[0], argv[1:]...)
		var out bytes.Buffer
		cmd.Stdout = &out
		cmd.Stderr = &out
		t0 := time.Now()
		_ = cmd.Run()
		dt = time.Since(t0).Seconds()
		o = out.String()
		timedOut = cctx.Err() != nil
	}
	first := ""
	for _, ln := range strings.Split(o, "\n") {
		ln = strings.TrimSpace(ln)
		if ln == "" || strings.HasPrefix(ln, "WARNING") {
			continue // z3 warns about patterns it drops
		}
		first = ln
		break
	}
	st := "error"
	switch {
	case first == "unsat":
		st = "unsat"
	case first == "sat":
		st = "sat"
	case first == "unknown":
		st = "unknown"
	case first == "timeout" || timedOut || strings.Contains(o, "interrupted by timeout"):
		st = "timeout"
	}
	return solveResult{status: st, solver: sp.name, timeS: dt, output: o}
}

var lambdaRe = regexp.MustCompile(`\(lambda `)

// solve tries the solvers on the query: first z3 old with a short budget,
// then all that remain in parallel with the full budget. A definite `unsat`
// wins; `sat` from any solver is returned if no `unsat`.
func solve(dir string, text func(noLambda bool) string, quickS, fullS int) (solveResult, []solveResult) {
	var all []solveResult
	ctx := context.Background()
	// first round: both z3 versions race with the short budget
	// second round: all three with the full budget
	rounds := []struct {
		idx []int
		t   int
	}{{[]int{0, 1}, quickS}, {[]int{0, 1, 2}, fullS}}
	var best solveResult
	best.status = "error"
	for ri, rd := range rounds {
		if ri == 1 && fullS <= quickS {
			break
		}
		ch := make(chan solveResult, 4)
		cctx, cancel := context.WithCancel(ctx)
		for _, i := range rd.idx {
			sp := solvers[i]
			go func(sp solverSpec) {
				ch <- runSolver(cctx, sp, dir, text(sp.noLambda), rd.t)
			}(sp)
		}
		// "unsat" from any solver discharges the goal at once. "sat" is only believed when no
		// other solver of the round proves the goal: z3 4.8.12 was seen answering sat on a
		// quantified goal over reals that z3 5.1.0 proves (and that is valid on paper).
		var sat *solveResult
		for range rd.idx {
			x := <-ch
			all = append(all, x)
			if x.status == "unsat" {
				cancel()
				if sat != nil {
					x.output = "DISAGREEMENT: " + sat.solver + " answered sat\n" + x.output
				}
				return x, all
			}
			if x.status == "sat" && sat == nil {
				y := x
				sat = &y
			}
			if best.status == "error" || (best.status == "timeout" && x.status == "unknown") {
				best = x
			}
		}
		cancel()
		if sat != nil {
			return *sat, all
		}
	}
	return best, all
}


// crossCheck runs the query on every solver other than the one whose answer was accepted
// and reports "name:status" for each.
func crossCheck(dir string, text func(noLambda bool) string, accepted string, budgetS int) []string {
	var out []string
	ch := make(chan solveResult, len(solvers))
	n := 0
	for _, sp := range solvers {
		if sp.name == accepted {
			continue
		}
		n++
		go func(sp solverSpec) { ch <- runSolver(context.Background(), sp, dir, text(sp.noLambda), budgetS) }(sp)
	}
	for i := 0; i < n; i++ {
		x := <-ch
		out = append(out, x.solver+":"+x.status)
	}
	sort.Strings(out)
	return out
}
