package main

import (
	"flag"
	"fmt"
	"os"
	"path/filepath"
	"sort"
	"strings"
	"sync"
	"time"
)

type options struct {
	repo      string
	verif     string
	props     []string
	tier      string
	listFuncs bool
	funcs     []string
	verbose   bool
	dump      string
	quickS    int
	fullS     int
	jobs      int
	noReplay  bool
	seed      int
}

func main() {
	if len(os.Args) < 2 {
		fmt.Fprintln(os.Stderr, "usage: govc check|replay|list ...")
		os.Exit(2)
	}
	switch os.Args[1] {
	case "check":
		os.Exit(cmdCheck(os.Args[2:]))
	case "worker":
		os.Exit(cmdWorker())
	case "replay":
		os.Exit(cmdReplay(os.Args[2:]))
	default:
		fmt.Fprintln(os.Stderr, "unknown command", os.Args[1])
		os.Exit(2)
	}
}

func splitList(s string) []string {
	var out []string
	for _, x := range strings.Split(s, ",") {
		if x = strings.TrimSpace(x); x != "" {
			out = append(out, x)
		}
	}
	return out
}

func cmdCheck(args []string) int {
	fs := flag.NewFlagSet("check", flag.ExitOnError)
	var o options
	var props, funcs string
	fs.StringVar(&o.repo, "repo", "/repo", "repository root")
	fs.StringVar(&o.verif, "verif", "/verif", "verif root")
	fs.StringVar(&props, "props", "", "comma-separated property ids (default: all)")
	fs.StringVar(&funcs, "funcs", "", "restrict to these function keys")
	fs.StringVar(&o.tier, "tier", "quick", "quick|thorough")
	fs.BoolVar(&o.verbose, "v", false, "verbose")
	fs.StringVar(&o.dump, "dump", "", "directory to dump queries into")
	fs.IntVar(&o.quickS, "t1", 4, "first-pass solver timeout (s)")
	fs.IntVar(&o.fullS, "t2", 120, "second-pass solver timeout (s)")
	fs.IntVar(&o.jobs, "j", 12, "parallel obligations")
	fs.BoolVar(&o.noReplay, "noreplay", false, "skip replay of counterexamples")
	fs.IntVar(&o.seed, "seed", 0, "seed (recorded in evidence)")
	fs.BoolVar(&o.listFuncs, "listfuncs", false, "print every function of the package and whether it is under contract, then exit")
	fs.Parse(args)
	o.props = splitList(props)
	o.funcs = splitList(funcs)
	if o.tier == "thorough" {
		if o.fullS < 300 {
			o.fullS = 300
		}
	}
	return runCheck(&o)
}

type funcResult struct {
	key  string
	ctx  *FnCtx
	err  error
	fc   *FuncContract
}

func runCheck(o *options) int {
	t0 := time.Now()
	if err := startWorker(); err != nil {
		fmt.Fprintln(os.Stderr, "govc: worker:", err)
	}
	contractFiles := []string{filepath.Join(o.repo, "larking", "verif_contracts.go")}
	libs, _ := filepath.Glob(filepath.Join(o.verif, "contracts", "*.spec"))
	sort.Strings(libs)
	contractFiles = append(contractFiles, libs...)
	eng, err := loadEngine(o.repo, contractFiles)
	if err != nil {
		fmt.Fprintln(os.Stderr, "govc: load:", err)
		return 2
	}
	if o.listFuncs {
		for _, k := range sortedKeys(eng.funcs) {
			st := "none"
			if fc := eng.cs.Funcs[k]; fc != nil {
				st = "contract"
				if fc.IsPart {
					st = "partial"
				}
				if fc.Trusted && !fc.IsPart {
					st = "trusted"
				}
			}
			fmt.Printf("%s\t%s\n", st, k)
		}
		return 0
	}
	if err := eng.checkImmutables(); err != nil {
		fmt.Fprintln(os.Stderr, "govc:", err)
		fmt.Printf("VIOLATION property=%s replay=none obligation=immutable %v no-failing-input-found\n", strings.Join(o.props, ","), err)
		return 1
	}
	loadS := time.Since(t0).Seconds()

	want := map[string]bool{}
	for _, p := range o.props {
		want[p] = true
	}
	wantFn := map[string]bool{}
	for _, f := range o.funcs {
		wantFn[f] = true
	}
	var results []*funcResult
	for _, key := range eng.cs.Order {
		fc := eng.cs.Funcs[key]
		if fc.Trusted && !fc.IsPart {
			continue // assumed contract; with "partial kinds" the body is still checked for those kinds
		}
		if len(wantFn) > 0 && !wantFn[key] {
			continue
		}
		if len(want) > 0 {
			hit := false
			for _, s := range fc.Serves {
				if want[s] {
					hit = true
				}
			}
			for _, cl := range fc.Clauses {
				for _, s := range cl.Tags {
					if want[s] {
						hit = true
					}
				}
			}
			if !hit {
				continue
			}
		}
		fn := eng.funcs[key]
		r := &funcResult{key: key, fc: fc}
		if fn == nil {
			r.err = fmt.Errorf("%s: function not found in package (contract no longer maps onto the code)", key)
		} else {
			eng.resetNeeds()
			r.ctx, r.err = eng.verifyFunc(fn, fc)
			if r.ctx != nil {
				r.ctx.prelude = eng.prelude()
			}
		}
		results = append(results, r)
	}
	genS := time.Since(t0).Seconds() - loadS

	// discharge
	prelude := eng.prelude()
	tmp, err := os.MkdirTemp("", "govc")
	if err != nil {
		fmt.Fprintln(os.Stderr, err)
		return 2
	}
	defer os.RemoveAll(tmp)
	var obls []*Obligation
	unchecked := false
	for _, r := range results {
		if r.ctx != nil {
			for _, ob := range r.ctx.obls {
				if r.fc.IsPart && (ob.Kind == "inv.init" || ob.Kind == "inv.keep") && !partialClaims(r.fc, ob) {
					// a loop invariant is assumed after the loop: a partial contract must claim it
					fmt.Printf("govc: %s: loop invariant %s is assumed but its obligation kind is not claimed by the partial contract\n", r.key, ob.ID)
					unchecked = true
				}
				if len(want) > 0 {
					hit := false
					for _, p := range ob.Props {
						if want[p] {
							hit = true
						}
					}
					if !hit {
						continue
					}
				}
				if r.fc.IsPart && !partialClaims(r.fc, ob) {
					ob.Res = solveResult{status: "not-attempted"}
					obls = append(obls, ob)
					continue
				}
				obls = append(obls, ob)
			}
		}
	}
	// An obligation recorded as a known finding is expected to fail; in the quick tier it gets a
	// short second round (it is reported as KNOWN-FINDING unless a solver proves it, so the only
	// effect of the shorter budget is on a repaired tree whose proof needs longer: thorough tells).
	knownOb := map[string]bool{}
	for _, k := range loadKnown(filepath.Join(o.verif, "known_findings.json")) {
		if k.Status == "known" {
			knownOb[k.Obligation] = true
		}
	}
	sem := make(chan struct{}, o.jobs)
	var wg sync.WaitGroup
	for _, ob := range obls {
		if ob.Res.status == "not-attempted" {
			if o.tier == "thorough" || os.Getenv("GOVC_EXPLORE") != "" {
				// thorough: obligations outside the claimed kinds of partial contracts are attempted too,
				// for information only (they are never counted and never raise a violation)
				wg.Add(1)
				sem <- struct{}{}
				go func(ob *Obligation) {
					defer wg.Done()
					defer func() { <-sem }()
					res, _ := solve(tmp, func(noLambda bool) string { return ob.queryGoal(prelude, noLambda, false, ob.goal) }, 4, 4)
					ob.Explore = res.status
				}(ob)
			}
			continue
		}
		wg.Add(1)
		sem <- struct{}{}
		go func(ob *Obligation) {
			defer wg.Done()
			defer func() { <-sem }()
			if o.dump != "" {
				os.MkdirAll(o.dump, 0o755)
				os.WriteFile(filepath.Join(o.dump, sanitize(ob.ID)+".smt2"), []byte(ob.query(prelude, os.Getenv("GOVC_NOLAMBDA") != "", false)), 0o644)
			}
			// every conjunct of the goal is a query of its own; all must be unsat
			var total float64
			if len(ob.parts) == 0 {
				ob.Res = solveResult{status: "unsat", solver: "syntactic"}
			}
			for i, part := range ob.parts {
				part := part
				text := func(noLambda bool) string { return ob.queryGoal(prelude, noLambda, false, part) }
				fullS := o.fullS
				if knownOb[ob.ID] && o.tier != "thorough" && fullS > 2*o.quickS {
					fullS = 2 * o.quickS
				}
				res, all := solve(tmp, text, o.quickS, fullS)
				total += res.timeS
				ob.All = append(ob.All, all...)
				ob.Res = res
				if res.status != "unsat" {
					ob.failedPart = i
					if d := os.Getenv("GOVC_KEEP"); d != "" {
						os.MkdirAll(d, 0o755)
						os.WriteFile(filepath.Join(d, sanitize(ob.ID)+fmt.Sprintf(".part%d.smt2", i)), []byte(text(false)), 0o644)
					}
					break
				}
			}
			ob.Res.timeS = total
			if o.tier == "thorough" && ob.Res.status == "unsat" && len(ob.parts) > 0 {
				// thorough: the whole goal is put to the solvers that did not give the accepted answer
				ob.Cross = crossCheck(tmp, func(noLambda bool) string { return ob.queryGoal(prelude, noLambda, false, ob.goal) }, ob.Res.solver, 20)
			}
		}(ob)
	}
	// vacuity: every return must be reachable under the assumptions in force
	// (a contradictory requires / invariant / library assumption would make
	// every obligation behind it pass trivially)
	for _, r := range results {
		if r.ctx == nil {
			continue
		}
		for _, vc := range r.ctx.vacuity {
			wg.Add(1)
			sem <- struct{}{}
			go func(c *FnCtx, vc *vacuityCheck) {
				defer wg.Done()
				defer func() { <-sem }()
				text := func(noLambda bool) string {
					var b strings.Builder
					b.WriteString("(set-logic ALL)\n")
					if c.prelude != "" {
						b.WriteString(c.prelude)
					} else {
						b.WriteString(prelude)
					}
					for _, cm := range c.cmds[:vc.cmdN] {
						if cm.only != "" {
							continue
						}
						b.WriteString(cm.render(noLambda))
						b.WriteByte('\n')
					}
					b.WriteString("(assert " + vc.reach + ")\n(check-sat)\n")
					return b.String()
				}
				res, _ := solve(tmp, text, 2, 2)
				vc.status = res.status
			}(r.ctx, vc)
		}
	}
	wg.Wait()
	if os.Getenv("GOVC_EXPLORE") != "" {
		// per function and kind: how many unclaimed obligations discharge / stay open
		type fk struct{ f, k string }
		okN, openN := map[fk]int{}, map[fk][]string{}
		for _, ob := range obls {
			if ob.Res.status == "not-attempted" && ob.Explore != "" {
				key := fk{ob.Func, ob.Kind}
				if ob.Explore == "unsat" {
					okN[key]++
				} else {
					openN[key] = append(openN[key], ob.ID)
				}
			}
		}
		seen := map[fk]bool{}
		for _, ob := range obls {
			key := fk{ob.Func, ob.Kind}
			if ob.Res.status != "not-attempted" || seen[key] {
				continue
			}
			seen[key] = true
			fmt.Printf("EXPLORE %-40s %-8s discharged=%d open=%d %v\n", key.f, key.k, okN[key], len(openN[key]), openN[key])
		}
	}
	solveS := time.Since(t0).Seconds() - loadS - genS

	rep := &Report{o: o, eng: eng, results: results, obls: obls, loadS: loadS, genS: genS, solveS: solveS, t0: t0, prelude: prelude, tmp: tmp}
	code := rep.finish()
	if unchecked && code == 0 {
		code = 2
	}
	return code
}

func partialClaims(fc *FuncContract, ob *Obligation) bool {
	if os.Getenv("GOVC_ALLKINDS") != "" {
		return true // exploration: attempt every obligation of partial contracts
	}
	for _, k := range fc.Partial {
		if k == ob.Kind || strings.HasPrefix(ob.Kind+"["+ob.Anchor, k) {
			return true
		}
	}
	return false
}

// query renders the SMT-LIB text of an obligation (whole goal, or the conjunct that failed).
func (ob *Obligation) query(prelude string, noLambda bool, model bool) string {
	g := ob.goal
	if ob.Res.status != "" && ob.Res.status != "unsat" && ob.failedPart < len(ob.parts) {
		g = ob.parts[ob.failedPart]
	}
	return ob.queryGoal(prelude, noLambda, model, g)
}

func (ob *Obligation) queryGoal(prelude string, noLambda bool, model bool, goal string) string {
	if ob.fn.prelude != "" {
		prelude = ob.fn.prelude // the function's own prelude (only the axioms it uses)
	}
	var b strings.Builder
	if model {
		b.WriteString("(set-option :produce-models true)\n")
	}
	b.WriteString("(set-logic ALL)\n")
	b.WriteString(prelude)
	for _, cm := range ob.fn.cmds[:ob.cmdN] {
		if cm.only != "" && !ob.allow[cm.only] {
			continue
		}
		b.WriteString(cm.render(noLambda))
		b.WriteByte('\n')
	}
	for _, x := range ob.extra {
		b.WriteString("(assert " + x + ")\n")
	}
	b.WriteString("(assert (not " + goal + "))\n(check-sat)\n")
	return b.String()
}
