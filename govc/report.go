package main

// Reporting: evidence files, known findings, violation lines.

import (
	"sync"
	"encoding/json"
	"fmt"
	"os"
	"path/filepath"
	"sort"
	"strings"
	"time"
)

type Report struct {
	o       *options
	eng     *Engine
	results []*funcResult
	obls    []*Obligation
	loadS   float64
	genS    float64
	solveS  float64
	t0      time.Time
	prelude string
	tmp     string
	vacuity map[string]any
	witMu    sync.Mutex
	witCache map[string]witnessRes
}

type KnownFinding struct {
	Property   string   `json:"property"`
	Properties []string `json:"properties,omitempty"`
	Obligation string   `json:"obligation"`
	Status     string   `json:"status"` // known | fixed
	Commit     string   `json:"commit,omitempty"`
	What       string   `json:"what"`
	Input      string   `json:"input,omitempty"`
}

func loadKnown(path string) []KnownFinding {
	data, err := os.ReadFile(path)
	if err != nil {
		return nil
	}
	var out struct {
		Findings []KnownFinding `json:"findings"`
	}
	if err := json.Unmarshal(data, &out); err != nil {
		fmt.Fprintln(os.Stderr, "govc: known_findings.json:", err)
		os.Exit(2)
	}
	return out.Findings
}

func (k KnownFinding) covers(prop string) bool {
	if k.Property == prop || k.Property == "*" {
		return true
	}
	for _, p := range k.Properties {
		if p == prop {
			return true
		}
	}
	return false
}

var trustedBase = []string{
	"govc itself (SSA-to-SMT translation, contract parser) — unverified; guarded by the must-fail selftest corpus",
	"golang.org/x/tools v0.29.0 go/ssa and go/types represent the source faithfully; the Go compiler compiles the same source",
	"SMT solvers z3 4.8.12, z3 5.1.0, cvc5 1.0.3 (an obligation is accepted on one unsat answer)",
	"machine model: int is 64 bit (GOARCH=amd64), exact two's-complement wrap-around at every integer operation; no memory exhaustion",
	"deferred calls are not executed in the caller's VC (postconditions are evaluated at the return instruction)",
}

type propSummary struct {
	id         string
	obls       []*Obligation
	discharged int
	failed     []*Obligation
	known      []*Obligation
	notAtt     int
	genErrs    []string
}

func (r *Report) finish() int {
	known := loadKnown(filepath.Join(r.o.verif, "known_findings.json"))
	props := map[string]*propSummary{}
	get := func(id string) *propSummary {
		p := props[id]
		if p == nil {
			p = &propSummary{id: id}
			props[id] = p
		}
		return p
	}
	want := map[string]bool{}
	for _, p := range r.o.props {
		want[p] = true
		get(p)
	}
	for _, fr := range r.results {
		if fr.err != nil {
			// a contract that cannot be turned into obligations affects every property it serves (function- and clause-level tags)
			served := map[string]bool{}
			for _, p := range fr.fc.Serves {
				served[p] = true
			}
			for _, cl := range fr.fc.Clauses {
				for _, p := range cl.Tags {
					served[p] = true
				}
			}
			for _, p := range sortedKeys(served) {
				if len(want) == 0 || want[p] {
					get(p).genErrs = append(get(p).genErrs, fr.err.Error())
				}
			}
		}
	}
	for _, ob := range r.obls {
		for _, p := range ob.Props {
			if len(want) > 0 && !want[p] {
				continue
			}
			ps := get(p)
			ps.obls = append(ps.obls, ob)
			switch ob.Res.status {
			case "unsat":
				ps.discharged++
			case "not-attempted":
				ps.notAtt++
			default:
				isKnown := false
				for _, k := range known {
					if k.Status == "known" && k.Obligation == ob.ID && k.covers(p) {
						isKnown = true
					}
				}
				if isKnown {
					ps.known = append(ps.known, ob)
				} else {
					ps.failed = append(ps.failed, ob)
				}
			}
		}
	}
	if r.o.verbose {
		for _, ob := range r.obls {
			extra := ""
			if ob.Res.status != "unsat" {
				for _, a := range ob.All {
					extra += fmt.Sprintf(" [%s %s %.1fs]", a.solver, a.status, a.timeS)
				}
			}
			fmt.Printf("  %-10s %-12s %6.2fs  %s%s\n", ob.Res.status, ob.Res.solver, ob.Res.timeS, ob.ID, extra)
		}
		for _, fr := range r.results {
			if fr.ctx != nil {
				for _, n := range fr.ctx.notes {
					fmt.Printf("  note %s: %s\n", fr.key, n)
				}
			}
		}
	}
	exit := 0
	vacTotal, vacReach := 0, 0
	var vacBad, vacDead []string
	for _, fr := range r.results {
		if fr.ctx == nil {
			continue
		}
		for _, vc := range fr.ctx.vacuity {
			vacTotal++
			switch vc.status {
			case "unsat":
				dead := false
				for _, d := range fr.fc.Dead {
					if strings.HasSuffix(vc.what, ": "+d) {
						dead = true
					}
				}
				if dead {
					vacDead = append(vacDead, fr.key+": "+vc.what)
				} else {
					vacBad = append(vacBad, fr.key+": "+vc.what)
				}
			case "sat":
				vacReach++
			}
		}
	}
	r.vacuity = map[string]any{"returns_checked": vacTotal, "shown_reachable": vacReach, "unreachable": vacBad, "declared_dead_code": vacDead}
	for _, v := range vacBad {
		fmt.Printf("govc: VACUOUS %s — assumptions contradict each other on this path\n", v)
		exit = 2
	}
	ids := sortedKeys(props)
	for _, id := range ids {
		ps := props[id]
		viol := 0
		for _, msg := range ps.genErrs {
			viol++
			path := r.writeReplay(id, "generate", nil, msg)
			fmt.Printf("VIOLATION property=%s replay=%s obligation=generate %s no-failing-input-found\n", id, path, msg)
		}
		for _, ob := range ps.known {
			what := ""
			for _, k := range known {
				if k.Obligation == ob.ID && k.covers(id) {
					what = k.What
				}
			}
			fmt.Printf("KNOWN-FINDING: property=%s %s %s\n", id, ob.ID, what)
		}
		for _, ob := range ps.failed {
			viol++
			rp := r.replay(id, ob)
			suffix := ""
			if !rp.confirmed {
				suffix = " no-failing-input-found"
			}
			fmt.Printf("VIOLATION property=%s replay=%s obligation=%s status=%s%s\n", id, rp.path, ob.ID, ob.Res.status, suffix)
		}
		if len(ps.obls) == 0 && len(ps.genErrs) == 0 {
			fmt.Printf("govc: property %s: no obligations generated (vacuous) — treated as an error\n", id)
			exit = 2
		}
		r.writeEvidence(ps, viol)
		if viol > 0 {
			exit = 1 // a violation outranks the vacuity / generator diagnostics that usually follow from it
		}
		fmt.Printf("property %s: %d obligations, %d discharged, %d known findings, %d violations, %d not attempted (%.1fs)\n",
			id, len(ps.obls)-ps.notAtt-len(ps.known), ps.discharged, len(ps.known), viol, ps.notAtt, time.Since(r.t0).Seconds())
	}
	return exit
}

func (r *Report) writeEvidence(ps *propSummary, viol int) {
	type sample struct {
		Obligation string  `json:"obligation"`
		Text       string  `json:"text"`
		Pos        string  `json:"pos,omitempty"`
		Status     string  `json:"status"`
		Solver     string  `json:"solver"`
		TimeS      float64 `json:"time_s"`
		QueryBytes int     `json:"query_bytes"`
	}
	byKind := map[string]int{}
	byBackend := map[string]int{}
	funcsFull := map[string]bool{}
	funcsPartial := map[string]bool{}
	var solverTime float64
	var samples []sample
	assumptions := map[string]bool{}
	abstracted := map[string]int{}
	var notes []string
	var preconds []string
	exploreOK := 0
	var exploreOpen []string
	crossTotal := map[string]int{}
	crossOK := map[string]bool{}
	var crossDisagree []string
	seenFn := map[string]bool{}
	for _, ob := range ps.obls {
		if ob.Res.status == "not-attempted" {
			if ob.Explore != "" {
				if ob.Explore == "unsat" {
					exploreOK++
				} else {
					exploreOpen = append(exploreOpen, ob.ID)
				}
			}
			continue
		}
		byKind[ob.Kind]++
		if ob.Res.status == "unsat" {
			byBackend[ob.Res.solver]++
		}
		for _, a := range ob.All {
			solverTime += a.timeS
		}
		if strings.HasPrefix(ob.Res.output, "DISAGREEMENT") {
			crossDisagree = append(crossDisagree, ob.ID+" "+strings.SplitN(ob.Res.output, "\n", 2)[0]+" (accepted: unsat by "+ob.Res.solver+")")
		}
		for _, x := range ob.Cross {
			crossTotal[x[strings.Index(x, ":")+1:]]++
			if strings.HasSuffix(x, ":unsat") {
				crossOK[ob.ID] = true
			}
			if strings.HasSuffix(x, ":sat") {
				crossDisagree = append(crossDisagree, ob.ID+" "+x)
			}
		}
		if ob.fn.fc.IsPart {
			funcsPartial[ob.Func] = true
		} else {
			funcsFull[ob.Func] = true
		}
		if !seenFn[ob.Func] {
			seenFn[ob.Func] = true
			for a := range ob.fn.assumptions {
				assumptions[a] = true
			}
			if strings.Contains(ob.Func, "$") {
				assumptions[ob.Func+": a closure is verified as a sequential function of its own; its captured variables are heap cells that nothing else writes while it runs (a goroutine body: no interleaving is considered)"] = true
			}
			for a, n := range ob.fn.abstracted {
				abstracted[ob.Func+": "+a] += n
			}
			for _, n := range ob.fn.notes {
				notes = append(notes, ob.Func+": "+n)
			}
			for _, cl := range ob.fn.fc.Clauses {
				if cl.Kind == "requires" {
					preconds = append(preconds, ob.Func+": requires "+cl.Text)
				}
			}
		}
		if len(samples) < 6 || ob.Res.status != "unsat" {
			samples = append(samples, sample{ob.ID, ob.Text, fmt.Sprintf("%s:%d", filepath.Base(ob.Pos.Filename), ob.Pos.Line), ob.Res.status, ob.Res.solver, ob.Res.timeS,
				len(ob.query(r.prelude, false, false))})
		}
	}
	var knownHit []string
	for _, ob := range ps.known {
		knownHit = append(knownHit, ob.ID)
	}
	assumeList := []string{}
	for a := range assumptions {
		assumeList = append(assumeList, a)
	}
	sort.Strings(assumeList)
	var abstractedList []string
	for a, n := range abstracted {
		abstractedList = append(abstractedList, fmt.Sprintf("%s ×%d", a, n))
	}
	sort.Strings(abstractedList)
	sort.Strings(notes)
	sort.Strings(preconds)
	nObl := len(ps.obls) - ps.notAtt - len(ps.known)
	cov := map[string]any{
		"obligations":              nObl,
		"discharged":               ps.discharged,
		"checker_cmd":              fmt.Sprintf("/verif/bin/govc check -props %s -tier %s", ps.id, r.o.tier),
		"trusted_base":             trustedBase,
		"samples":                  samples,
		"obligations_by_kind":      byKind,
		"by_backend":               byBackend,
		"solver_time_s":            round2(solverTime),
		"functions_under_contract": map[string]any{"full": sortedKeys(funcsFull), "partial": sortedKeys(funcsPartial)},
		"not_attempted":            ps.notAtt,
		"abstracted_calls":         abstractedList,
		"known_findings_hit":       knownHit,
		"notes":                    notes,
		"generator_errors":         ps.genErrs,
		"unclaimed_obligations":    map[string]any{"note": "thorough tier only: obligations of partial contracts outside their claimed kinds, attempted for information (4 s, never counted, never a violation); open ones usually need a precondition or a contract on a callee", "discharged": exploreOK, "open": exploreOpen},
		"cross_check":              map[string]any{"note": "thorough tier only: every discharged obligation is put, as one goal, to the solvers that did not give the accepted answer (20 s)", "answers": crossTotal, "obligations_confirmed_by_a_second_solver": len(crossOK), "disagreements": crossDisagree},
		"preconditions":            preconds,
		"preconditions_note":       "each precondition is an obligation at every call site inside a function under a full contract (kind pre); at entry points, and at call sites in functions that are not under contract or whose partial contract does not claim kind pre, it is assumed",
		"vacuity":                  r.vacuity,
		"timing_s":                 map[string]float64{"load_ssa": round2(r.loadS), "generate": round2(r.genS), "solve": round2(r.solveS)},
	}
	ev := map[string]any{
		"property_id": ps.id,
		"tier":        r.o.tier,
		"seed":        r.o.seed,
		"level":       "proof",
		"coverage":    cov,
		"assumptions": assumeList,
		"wall_s":      round2(time.Since(r.t0).Seconds()),
		"violations":  viol,
	}
	dir := filepath.Join(r.o.verif, "evidence")
	os.MkdirAll(dir, 0o755)
	data, _ := json.MarshalIndent(ev, "", " ")
	os.WriteFile(filepath.Join(dir, ps.id+".json"), append(data, '\n'), 0o644)
}

func round2(f float64) float64 { return float64(int(f*100+0.5)) / 100 }

type replayResult struct {
	path      string
	confirmed bool
}

func (r *Report) writeReplay(prop, obl string, extra map[string]any, output string) string {
	dir := filepath.Join(r.o.verif, "replay", prop)
	os.MkdirAll(dir, 0o755)
	path := filepath.Join(dir, sanitize(strings.ReplaceAll(obl, "/", "__"))+".json")
	m := map[string]any{"property": prop, "obligation": obl, "solver_output": output}
	for k, v := range extra {
		m[k] = v
	}
	data, _ := json.MarshalIndent(m, "", " ")
	os.WriteFile(path, append(data, '\n'), 0o644)
	return path
}
