package main

// Calls: contracts, built-ins, assumed library models, abstraction.

import (
	"fmt"
	"go/token"
	"go/types"
	"sort"
	"strconv"
	"strings"

	"golang.org/x/tools/go/ssa"
)

// libModel is an assumed contract for a dependency, implemented directly.
type libModel struct {
	desc   string   // human-readable statement of the assumed contract
	writes []string // heap prefixes written
	apply  func(c *FnCtx, st *State, in ssa.Instruction, cc *ssa.CallCommon, args []Val) Val
}

var libModels map[string]*libModel

// pure library functions: no heap effect, result unconstrained within its type
var pureLibs = map[string]bool{
	"fmt.Errorf": true, "fmt.Sprintf": true, "fmt.Sprint": true, "errors.New": true,
	"status.Errorf": true, "status.Error": true, "status.FromError": true, "status.Convert": true,
	"protowire.ParseError": true, "time.Now": true, "strings.ToLower": true, "strings.ToUpper": true,
	"strconv.FormatInt": true, "strconv.Itoa": true, "(*status.Status).Code": true, "(*status.Status).Message": true,
	"(*status.Status).Proto": true, "(*status.Status).Err": true, "status.FromContextError": true,
	"unicode.IsLetter": true, "unicode.IsNumber": true, "strings.Join": true,
	"strings.TrimSuffix": true, "strings.TrimPrefix": true, "strings.Cut": true, "strings.EqualFold": true,
	"strings.ContainsRune": true, "textproto.CanonicalMIMEHeaderKey": true, "(http.Header).Get": true,
	"(error).Error": true, "ssa:deferstack": true, "ssa:wrapnilchk": true,
	"base64.(*Encoding).EncodeToString": true, "(*base64.Encoding).EncodeToString": true,
	"(metadata.MD).Copy": true,
	"metadata.NewIncomingContext": true, "context.WithTimeout": true, "context.WithCancel": true,
	"(*sync.WaitGroup).Add": true, "(*sync.WaitGroup).Done": true, "(*sync.WaitGroup).Wait": true, "(*sync.Pool).Put": true,
	"(http.Flusher).Flush": true,
	"(protoreflect.MessageDescriptor).Fields": true, "(protoreflect.List).Append": true, "(protoreflect.Message).Set": true,
	"(protoreflect.ProtoMessage).ProtoReflect": true, "(Compressor).Name": true, "(proto.Message).ProtoReflect": true,
	"(protoreflect.MethodDescriptor).IsStreamingClient": true, "(protoreflect.MethodDescriptor).IsStreamingServer": true,
	"(Codec).Name": true, "(StreamCodec).Name": true, "(encoding.Codec).Name": true,
}

func (c *FnCtx) callWrites(cc *ssa.CallCommon) []string {
	name := callName(cc)
	if b, ok := cc.Value.(*ssa.Builtin); ok {
		switch b.Name() {
		case "append":
			return []string{"E$" + typeName(cc.Args[0].Type().Underlying().(*types.Slice).Elem())}
		case "copy":
			return []string{"E$" + typeName(cc.Args[0].Type().Underlying().(*types.Slice).Elem())}
		case "delete":
			return []string{"M$"}
		}
		return nil
	}
	if m := c.eng.libFor(name, cc); m != nil {
		return m.writes
	}
	if fc := c.eng.contractFor(name); fc != nil && (!fc.IsPart || fc.Trusted) {
		if fc.Pure {
			return nil
		}
		if c.frameOnly && len(fc.ModFresh) > 0 {
			// writes into objects the callee allocated itself are invisible to this function's callers
			var out []string
			for _, m := range fc.Modifies {
				fresh := false
				for _, f := range fc.ModFresh {
					if f == m {
						fresh = true
					}
				}
				if !fresh {
					out = append(out, m)
				}
			}
			return out
		}
		return fc.Modifies
	}
	if pureLibs[name] || c.eng.cs.Dets[name] != nil {
		return nil
	}
	if name == "dynamic call" {
		sig := cc.Signature()
		if sig.Params().Len() == 1 && sig.Results().Len() == 1 && isInteger(sig.Params().At(0).Type()) && isBoolType(sig.Results().At(0).Type()) {
			return nil // rune predicates are assumed pure
		}
	}
	return []string{""}
}

func (e *Engine) contractFor(name string) *FuncContract {
	if fc, ok := e.cs.Funcs[name]; ok {
		return fc
	}
	return nil
}

func (e *Engine) libFor(name string, cc *ssa.CallCommon) *libModel {
	if m, ok := libModels[name]; ok {
		return m
	}
	return nil
}

func (c *FnCtx) execCall(st *State, in ssa.Instruction, cc *ssa.CallCommon) Val {
	name := callName(cc)
	c.callOrd[name]++
	var args []Val
	if cc.IsInvoke() {
		recv := c.val(st, cc.Value)
		if iv, ok := recv.(VIface); ok {
			c.oblige(st, "nil", c.anchor(in), in.Pos(), not(eq(iv.Typ, "0")), "interface receiver is not nil", nil)
			c.assume(st, not(eq(iv.Typ, "0")))
		}
		args = append(args, recv)
	}
	if !cc.IsInvoke() {
		if f, bindings := localClosure(cc.Value); f != nil {
			for _, b := range bindings {
				args = append(args, c.val(st, b))
			}
		}
	}
	for _, a := range cc.Args {
		args = append(args, c.val(st, a))
	}
	var resT types.Type = cc.Signature().Results()
	if cc.Signature().Results().Len() == 1 {
		resT = cc.Signature().Results().At(0).Type()
	}
	if b, ok := cc.Value.(*ssa.Builtin); ok {
		return c.execBuiltin(st, in, b, cc, args)
	}
	if m := c.eng.libFor(name, cc); m != nil {
		c.assumptions["library contract: "+name+" — "+m.desc] = true
		return m.apply(c, st, in, cc, args)
	}
	if fc := c.eng.contractFor(name); fc != nil && (!fc.IsPart || fc.Trusted) {
		return c.callContract(st, in, cc, name, fc, args, resT)
	}
	if d := c.eng.cs.Dets[name]; d != nil {
		// declared deterministic: the result is an uninterpreted function of the arguments
		var leaves []string
		for _, a := range args {
			leaves = append(leaves, flatten(a)...)
		}
		var sorts []string
		for _, a := range args {
			sorts = append(sorts, leafSorts(a)...)
		}
		v := c.freshVal(st, resT, "r."+sanitize(name))
		want := c.eng.detApp(d, leaves, sorts)
		got := flatten(v)
		if len(got) != len(want) {
			panic(specErr{fmt.Sprintf("det %s: declared kind %s does not fit the result of %s", d.Name, d.Kind, name)})
		}
		for i := range got {
			c.assume(st, eq(got[i], want[i]))
		}
		c.assumptions["library contract: "+name+" is a pure, deterministic function of its arguments (no heap effect)"] = true
		c.libResultFacts(st, name, v)
		return v
	}
	// call of a function value: predicates over runes are modelled as an uninterpreted application
	if name == "dynamic call" {
		sig := cc.Signature()
		if sig.Params().Len() == 1 && sig.Results().Len() == 1 && isInteger(sig.Params().At(0).Type()) && isBoolType(sig.Results().At(0).Type()) {
			fv := flatten(c.val(st, cc.Value))
			c.eng.needApplyRB = true
			c.assumptions["function values of type func(rune) bool are pure (no side effects)"] = true
			return VBool{app("applyRB", fv[0], args[0].(VInt).T)}
		}
	}
	// local closure called in place
	if pureLibs[name] {
		c.abstracted[name+" (pure: result unconstrained)"]++
	} else {
		c.abstracted[name+" (heap havocked, result unconstrained, assumed not to panic)"]++
		c.havocHeapLib(st)
	}
	if cc.Signature().Results().Len() == 0 {
		return VTuple{}
	}
	v := c.freshVal(st, resT, "r."+sanitize(name))
	c.libResultFacts(st, name, v)
	return v
}

// libResultFacts adds the few facts the engine assumes about abstracted pure calls.
func (c *FnCtx) libResultFacts(st *State, name string, v Val) {
	switch name {
	case "(protoreflect.MessageDescriptor).Fields", "(proto.Message).ProtoReflect", "(protoreflect.ProtoMessage).ProtoReflect":
		if i, ok := v.(VIface); ok {
			c.assert(lt("0", i.Typ))
			c.assumptions["library contract: "+name+" never returns nil"] = true
		}
	case "fmt.Errorf", "errors.New", "status.Errorf", "status.Error", "protowire.ParseError":
		if i, ok := v.(VIface); ok {
			// a non-nil error whose dynamic type is neither a sentinel nor a type constructed in this package
			c.assert(and(lt("800000", i.Typ), lt(i.Typ, "900000")))
			c.assumptions["library contract: "+name+" returns a non-nil error distinct from the sentinel errors"] = true
		}
	}
}

func (c *FnCtx) callContract(st *State, in ssa.Instruction, cc *ssa.CallCommon, name string, fc *FuncContract, args []Val, resT types.Type) Val {
	// parameter names of the callee
	var pnames []string
	nfv := 0
	if f := c.eng.funcs[name]; f != nil {
		for _, p := range f.FreeVars {
			pnames = append(pnames, p.Name())
			nfv++
		}
		for _, p := range f.Params {
			pnames = append(pnames, p.Name())
		}
	} else {
		sig := cc.Signature()
		if cc.IsInvoke() {
			pnames = append(pnames, "recv")
		} else if sig.Recv() != nil {
			pnames = append(pnames, sig.Recv().Name())
		}
		for i := 0; i < sig.Params().Len(); i++ {
			pnames = append(pnames, sig.Params().At(i).Name())
		}
	}
	if len(fc.Params) == len(args) && nfv == 0 {
		pnames = fc.Params
	}
	if len(pnames) != len(args) {
		panic(unsupported("call %s: %d params vs %d args", name, len(pnames), len(args)))
	}
	vars := map[string]Val{}
	fvs := map[string]VPtr{}
	for i, n := range pnames {
		if i < nfv {
			p, ok := args[i].(VPtr)
			if !ok {
				panic(unsupported("call %s: captured variable %s is not a cell", name, n))
			}
			fvs[n] = p
			continue
		}
		vars[n] = args[i]
	}
	if c.dynOn && !fc.Pure {
		// A representation invariant assumed by this function also speaks about references that are
		// not handed out yet. A callee that allocates such objects must promise the invariant itself;
		// otherwise its new objects would inherit this function's entry assumption.
		if callee := c.eng.funcs[name]; callee != nil && c.eng.allocsTracked(callee) && !c.eng.ensuresDynInvariant(fc) {
			panic(specErr{fmt.Sprintf("%s allocates objects covered by a representation invariant this function assumes, but its contract does not ensure that invariant", name)})
		}
	}
	pre := st.clone()
	env := &Env{c: c, st: st, old: pre, vars: vars, fvs: fvs}
	// callee ghosts evaluated at call entry
	for _, g := range fc.Ghosts {
		env.vars[g.Name] = env.eval(g.E)
	}
	// ghost variables set inside the callee are existential witnesses here
	for _, cl := range fc.Clauses {
		if cl.Kind == "ghostat" {
			env.vars[cl.Name] = VInt{c.declare("cg."+cl.Name, sInt)}
		}
	}
	k := 0
	for _, cl := range fc.Clauses {
		if cl.Kind != "requires" {
			continue
		}
		k++
		nm := cl.Name
		if nm == "" {
			nm = fmt.Sprint(k)
		}
		pc := env.evalBool(cl.E)
		c.oblige(st, "pre", fmt.Sprintf("%s#%d.%s", name, c.callOrd[name], nm), in.Pos(), pc,
			fmt.Sprintf("precondition of %s: %s", name, cl.Text), nil)
		if pc == "false" {
			// "requires false" marks a function that must never be called (it panics): nothing follows the call
			c.assume(st, "false")
		}
	}
	// recursion variant: calls inside a recursion cycle must decrease the measure
	if callee := c.eng.funcs[name]; callee != nil && c.eng.reaches(callee, c.fn) {
		var mine, theirs *Clause
		for i := range c.fc.Clauses {
			if c.fc.Clauses[i].Kind == "recdec" {
				mine = &c.fc.Clauses[i]
			}
		}
		for i := range fc.Clauses {
			if fc.Clauses[i].Kind == "recdec" {
				theirs = &fc.Clauses[i]
			}
		}
		if mine == nil || theirs == nil {
			c.note("recursive call to %s: termination not proved (no decreases clause)", name)
		} else {
			entryEnv := &Env{c: c, st: c.entry, old: c.entry, vars: map[string]Val{}, fn: c.fn}
			m0 := entryEnv.evalInt(mine.E)
			m1 := env.evalInt(theirs.E)
			c.oblige(st, "dec.rec", fmt.Sprintf("%s#%d", name, c.callOrd[name]), in.Pos(), and(le("0", m1), lt(m1, m0)),
				fmt.Sprintf("recursion measure decreases: %s < %s", theirs.Text, mine.Text), nil)
		}
	}
	if !fc.Pure {
		for _, m := range fc.Modifies {
			fresh := false
			for _, f := range fc.ModFresh {
				if f == m {
					fresh = true
				}
			}
			if fresh {
				c.havocHeapFresh(st, m)
			} else {
				c.havocHeap(st, m)
			}
		}
		// the callee may have allocated: the allocation counter may have advanced
		nr := c.declare("nextRef", sInt)
		c.assert(le(st.nextRef, nr))
		st.nextRef = nr
	}
	// results
	var res Val = VTuple{}
	nres := cc.Signature().Results().Len()
	if nres > 0 {
		res = c.freshVal(st, resT, "r."+sanitize(name))
	}
	rnames := fc.Returns
	if len(rnames) == 0 {
		rs := cc.Signature().Results()
		for i := 0; i < rs.Len(); i++ {
			n := rs.At(i).Name()
			if n == "" || n == "_" {
				if rs.Len() == 1 {
					n = "result"
				} else {
					n = fmt.Sprintf("result%d", i)
				}
			}
			rnames = append(rnames, n)
		}
	}
	if nres == 1 && len(rnames) >= 1 {
		env.vars[rnames[0]] = res
	} else if nres > 1 {
		for i, n := range rnames {
			if i < nres {
				env.vars[n] = res.(VTuple).E[i]
			}
		}
	}
	env.st = st
	for _, cl := range fc.Clauses {
		if cl.Kind == "ensures" && cl.At == "" { // (postconditions anchored at one return speak about the callee's locals)
			c.assume(st, env.evalBool(cl.E))
		}
	}
	if fc.Applies != "" && len(args) == 1 {
		if rb, ok := res.(VBool); ok {
			env.vars["arg$0"] = args[0]
			c.assume(st, eq(rb.T, env.evalBool(ECall{Fn: fc.Applies, Args: []Expr{EIdent{"arg$0"}}})))
		}
	}
	if fc.Trusted {
		c.assumptions["assumed contract: "+name] = true
	}
	return res
}

func (c *FnCtx) execBuiltin(st *State, in ssa.Instruction, b *ssa.Builtin, cc *ssa.CallCommon, args []Val) Val {
	switch b.Name() {
	case "ssa:deferstack":
		return VOpaque{"0"}
	case "len":
		switch v := args[0].(type) {
		case VStr:
			return VInt{v.Len}
		case VSlice:
			return VInt{v.Len}
		case VInt: // map
			n := c.mapLen(st, v.T)
			if mt := mapTypeOf(cc.Args[0].Type()); mt != nil && c.mapKeyOK(mt) {
				// an empty map has no key (and a map with a key is not empty)
				q := c.fresh("lk")
				h := sel(c.heapGet(st, mapFamH(mt), mapSort(2, sBool)), v.T)
				c.assume(st, fmt.Sprintf("(forall ((%s Int)) (! (=> (select %s %s) (< 0 %s)) :pattern ((select %s %s))))", q, h, q, n, h, q))
			}
			return VInt{n}
		}
	case "cap":
		if v, ok := args[0].(VSlice); ok {
			return VInt{v.Cap}
		}
	case "append":
		return c.execAppend(st, in, args[0].(VSlice), args[1])
	case "copy":
		return c.execCopy(st, args[0].(VSlice), args[1])
	case "delete":
		c.execMapDelete(st, mapTypeOf(cc.Args[0].Type()), args[0], args[1])
		return VTuple{}
	case "ssa:wrapnilchk":
		return args[0]
	case "min", "max":
		a, bb := args[0].(VInt).T, args[1].(VInt).T
		if b.Name() == "min" {
			return VInt{ite(le(a, bb), a, bb)}
		}
		return VInt{ite(le(a, bb), bb, a)}
	}
	panic(unsupported("builtin %s on %T", b.Name(), args[0]))
}

// leafFamilies lists the element-heap leaf maps for an element type.
func (c *FnCtx) elemLeaves(elem types.Type) []leaf { return c.elemLeavesIn(elem, "") }

func (c *FnCtx) elemLeavesIn(elem types.Type, reg string) []leaf {
	var out []leaf
	var walk func(t types.Type, prefix string)
	walk = func(t types.Type, prefix string) {
		if s, ok := t.Underlying().(*types.Struct); ok {
			for i := 0; i < s.NumFields(); i++ {
				if _, isArr := s.Field(i).Type().Underlying().(*types.Array); isArr {
					continue
				}
				walk(s.Field(i).Type(), prefix+"."+s.Field(i).Name())
			}
			return
		}
		for _, l := range c.leavesOf(t) {
			out = append(out, leaf{prefix + l.suffix, l.sort})
		}
	}
	walk(elem, elemFam(elem, reg))
	return out
}

func (c *FnCtx) execAppend(st *State, in ssa.Instruction, s VSlice, more Val) Val {
	elem := s.Elem
	var mlen string
	var msrc func(l leaf, k string) string // element k of the appended data, per leaf
	switch m := more.(type) {
	case VSlice:
		mlen = m.Len
		srcLeaves := c.elemLeavesIn(elem, m.Reg)
		dstLeaves := c.elemLeaves(elem)
		msrc = func(l leaf, k string) string {
			for i, dl := range dstLeaves {
				if dl.suffix == l.suffix {
					l = srcLeaves[i]
					break
				}
			}
			return sel(sel(c.heapGet(st, l.suffix, mapSort(2, l.sort)), m.Base), plus(m.Off, k))
		}
	case VStr:
		mlen = m.Len
		msrc = func(l leaf, k string) string { return strAt(m, k) }
	default:
		panic(unsupported("append of %T", more))
	}
	if s.Reg != "" {
		panic(unsupported("append to a slice of the read-only region %s", s.Reg))
	}
	newLen := c.define("alen", sInt, plus(s.Len, mlen))
	fits := c.define("fits", sBool, le(newLen, s.Cap))
	fresh := c.allocRef(st, "grow")
	newCap := c.declare("acap", sInt)
	c.assume(st, and(le(newLen, newCap), le(newCap, maxInt)))
	base := c.define("abase", sInt, ite(fits, s.Base, fresh))
	off := c.define("aoff", sInt, ite(fits, s.Off, "0"))
	cp := c.define("acap2", sInt, ite(fits, s.Cap, newCap))
	// appending nothing to a nil slice keeps it nil; not modelled separately (base may be fresh)
	for _, l := range c.elemLeaves(elem) {
		ms := mapSort(2, l.sort)
		m := c.heapGet(st, l.suffix, ms)
		k := c.fresh("k")
		oldArr := sel(m, s.Base)
		// in place: positions off+len .. off+len+mlen-1 receive the new data
		inPlace := ite(and(le(plus(s.Off, s.Len), k), lt(k, plus(s.Off, newLen))),
			msrc(l, minus(k, plus(s.Off, s.Len))), sel(oldArr, k))
		grown := ite(lt(k, s.Len), sel(oldArr, plus(s.Off, k)),
			ite(lt(k, newLen), msrc(l, minus(k, s.Len)), sel(sel(m, fresh), k)))
		arr := c.lambda("app", l.sort, k, ite(fits, inPlace, grown))
		c.heapSet(st, l.suffix, ms, sto(m, base, arr))
	}
	return VSlice{base, off, newLen, cp, elem, ""}
}

func (c *FnCtx) execCopy(st *State, dst VSlice, src Val) Val {
	var slen string
	var ssrc func(l leaf, k string) string
	switch m := src.(type) {
	case VSlice:
		slen = m.Len
		srcLeaves := c.elemLeavesIn(dst.Elem, m.Reg)
		dstLeaves := c.elemLeaves(dst.Elem)
		ssrc = func(l leaf, k string) string {
			for i, dl := range dstLeaves {
				if dl.suffix == l.suffix {
					l = srcLeaves[i]
					break
				}
			}
			return sel(sel(c.heapGet(st, l.suffix, mapSort(2, l.sort)), m.Base), plus(m.Off, k))
		}
		if dst.Reg != "" {
			panic(unsupported("copy into the read-only region %s", dst.Reg))
		}
	case VStr:
		slen = m.Len
		ssrc = func(l leaf, k string) string { return strAt(m, k) }
	default:
		panic(unsupported("copy from %T", src))
	}
	n := c.define("ncopy", sInt, ite(le(dst.Len, slen), dst.Len, slen))
	for _, l := range c.elemLeaves(dst.Elem) {
		ms := mapSort(2, l.sort)
		m := c.heapGet(st, l.suffix, ms)
		k := c.fresh("k")
		arr := c.lambda("cpy", l.sort, k, ite(and(le(dst.Off, k), lt(k, plus(dst.Off, n))), ssrc(l, minus(k, dst.Off)), sel(sel(m, dst.Base), k)))
		c.heapSet(st, l.suffix, ms, sto(m, dst.Base, arr))
	}
	return VInt{n}
}

// ---------------------------------------------------------------------------
// Maps (abstracted: contents unknown unless a contract states otherwise)

func (c *FnCtx) mapLen(st *State, m string) string {
	// the length is a function of the map and the map heap epoch (every map update havocs M$)
	n := c.define("maplen", sInt, sel(c.heapGet(st, "M$len", arrSort(sInt)), m))
	c.assert(le("0", n))
	return n
}

func (c *FnCtx) execRange(st *State, in *ssa.Range) Val {
	it := VOpaque{c.declare("iter", sInt)}
	if _, isMap := in.X.Type().Underlying().(*types.Map); isMap {
		if m, ok := c.val(st, in.X).(VInt); ok {
			if c.iterMap == nil {
				c.iterMap = map[ssa.Value]string{}
				c.iterMapT = map[ssa.Value]*types.Map{}
			}
			c.iterMap[in] = m.T
			c.iterMapT[in] = mapTypeOf(in.X.Type())
			if mt := mapTypeOf(in.X.Type()); c.mapKeyOK(mt) {
				// ghost set of the keys this range has produced so far, and the keys present when it started
				fam := c.rngFam(in)
				c.heapSet(st, fam, arrSort(sBool), "((as const (Array Int Bool)) false)")
				if c.rngStart == nil {
					c.rngStart = map[ssa.Value]string{}
				}
				c.rngStart[in] = c.define("rng.start", arrSort(sBool), sel(c.heapGet(st, mapFamH(mt), mapSort(2, sBool)), m.T))
			}
		}
	}
	return it
}

func (c *FnCtx) execNext(st *State, in *ssa.Next) Val {
	// (ok bool, key K, value V); arbitrary
	tt := in.Type().(*types.Tuple)
	out := VTuple{}
	out.E = append(out.E, VBool{c.declare("next.ok", sBool)})
	if m, ok := c.iterMap[in.Iter]; ok && c.iterMapT[in.Iter] != nil && c.mapKeyOK(c.iterMapT[in.Iter]) {
		mt := c.iterMapT[in.Iter]
		var key Val
		if !isInvalid(tt.At(1).Type()) {
			key = c.freshVal(st, tt.At(1).Type(), "next.key")
		}
		kid, val := c.mapNext(st, mt, m, out.E[0].(VBool).T, key)
		if rng, isRange := in.Iter.(*ssa.Range); isRange && c.rngStart[rng] != "" {
			// a key is produced at most once; when the range ends, every key that was present when it
			// started and is still present has been produced (Go spec, "For statements with range clause")
			okT := out.E[0].(VBool).T
			fam := c.rngFam(rng)
			seen := c.heapGet(st, fam, arrSort(sBool))
			c.assume(st, implies(okT, not(sel(seen, kid))))
			c.heapSet(st, fam, arrSort(sBool), ite(okT, sto(seen, kid, "true"), seen))
			q := c.fresh("rk")
			now := sel(c.heapGet(st, mapFamH(mt), mapSort(2, sBool)), m)
			c.assume(st, implies(not(okT), fmt.Sprintf("(forall ((%s Int)) (! (=> (and (select %s %s) (select %s %s)) (select %s %s)) :pattern ((select %s %s)) :pattern ((select %s %s))))",
				q, c.rngStart[rng], q, now, q, seen, q, now, q, seen, q)))
			c.assumptions["map range: every key is produced at most once, and at the end of the range every key present at its start and still present has been produced"] = true
		}
		if key == nil {
			key = VInt{"0"}
		}
		out.E = append(out.E, key)
		if isInvalid(tt.At(2).Type()) {
			out.E = append(out.E, VInt{"0"})
		} else {
			out.E = append(out.E, val)
		}
		return out
	}
	for i := 1; i < tt.Len(); i++ {
		ti := tt.At(i).Type()
		if isInvalid(ti) {
			out.E = append(out.E, VInt{"0"})
			continue
		}
		out.E = append(out.E, c.freshVal(st, ti, fmt.Sprintf("next.%d", i)))
	}
	if in.IsString {
		// rune index within the string is not modelled
		c.note("range over string: positions and runes unconstrained")
	}
	return out
}

// keyTerms pads the flattened key to three Int-or-array slots (string keys have three leaves).
func (c *FnCtx) keyTerms(k Val) []string {
	ts := flatten(k)
	switch len(ts) {
	case 1:
		return []string{c.eng.emptyArr(), ts[0], "0"}
	case 3:
		return ts
	}
	panic(unsupported("map key shape"))
}

func isInvalid(t types.Type) bool {
	b, ok := t.(*types.Basic)
	return ok && b.Kind() == types.Invalid
}

// ---------------------------------------------------------------------------
// Ghost accessors usable in contracts

func readerID(v Val) string {
	switch v := v.(type) {
	case VIface:
		return app("rid", v.Typ, v.Pay)
	case VInt:
		return v.T
	case VPtr:
		return v.Ref
	}
	sfail("reader identity of %T", v)
	return ""
}

func (e *Engine) ghostCall(env *Env, x ECall) (Val, bool) {
	c := env.c
	switch x.Fn {
	case "rdpos": // bytes delivered so far by reader r
		id := readerID(env.eval(x.Args[0]))
		return VInt{sel(c.heapGet(env.st, "G$rd.pos", arrSort(sInt)), id)}, true
	case "rdS": // the abstract byte stream of reader r
		id := readerID(env.eval(x.Args[0]))
		return VStr{app("rdS", id), "0", "0"}, true
	case "wrlen":
		id := readerID(env.eval(x.Args[0]))
		return VInt{sel(c.heapGet(env.st, "G$wr.len", arrSort(sInt)), id)}, true
	case "wrout":
		id := readerID(env.eval(x.Args[0]))
		return VStr{sel(c.heapGet(env.st, "G$wr.out", arrSort(sAI)), id), "0", "0"}, true
	case "sbstr": // current content of a strings.Builder
		v := env.eval(x.Args[0])
		id := readerID(v)
		return VStr{sel(c.heapGet(env.st, "G$sb.arr", arrSort(sAI)), id), "0", sel(c.heapGet(env.st, "G$sb.len", arrSort(sInt)), id)}, true
	case "DecVal": // decimal value of a digit string (at most 18 digits)
		if s, ok := env.eval(x.Args[0]).(VStr); ok {
			e.needDecval = true
			return VInt{app("decval", s.Arr, s.Off, s.Len)}, true
		}
	case "VarintVal": // value of the n-byte varint at the start of a string/stream view
		if s, ok := env.eval(x.Args[0]).(VStr); ok {
			e.needVarint = true
			return VInt{app("varintval", s.Arr, s.Off, env.evalInt(x.Args[1]))}, true
		}
	case "apply": // apply(f, r): the function value f applied to rune r
		fv := flatten(env.eval(x.Args[0]))
		e.needApplyRB = true
		return VBool{app("applyRB", fv[0], env.evalInt(x.Args[1]))}, true
	case "ULetter":
		e.needUnicode = true
		return VBool{app("ULetter", env.evalInt(x.Args[0]))}, true
	case "UNumber":
		e.needUnicode = true
		return VBool{app("UNumber", env.evalInt(x.Args[0]))}, true
	case "impl": // impl(v, "pkg.Iface"): the dynamic type of v implements the interface
		iv, ok := env.eval(x.Args[0]).(VIface)
		lit, ok2 := x.Args[1].(EStr)
		if ok && ok2 {
			t := e.lookupType(lit.V)
			if t == nil {
				sfail("impl: unknown type %s", lit.V)
			}
			return VBool{app(e.implFn(t), iv.Typ)}, true
		}
	case "hasprefix": // hasprefix(s, "literal"): the string starts with the literal (same term as the model of strings.HasPrefix)
		sv, ok := env.eval(x.Args[0]).(VStr)
		lit, ok2 := x.Args[1].(EStr)
		if ok && ok2 {
			parts := []string{le(fmt.Sprint(len(lit.V)), sv.Len)}
			for i := 0; i < len(lit.V); i++ {
				parts = append(parts, eq(strAt(sv, fmt.Sprint(i)), fmt.Sprint(lit.V[i])))
			}
			return VBool{and(parts...)}, true
		}
	case "rangestart": // rangestart(K, k): key k was in the map when the K-th range-over-map of the function started
		if n, ok := x.Args[0].(ENum); ok {
			var start string
			for r, t := range c.rngStart {
				if rr, isR := r.(*ssa.Range); isR && c.rngFam(rr) == "G$rng."+n.V {
					start = t
				}
			}
			if start == "" {
				sfail("rangestart: range %s over a map has not started here", n.V)
			}
			var kid string
			switch kv := env.eval(x.Args[1]).(type) {
			case VStr:
				kid = c.keyID(kv)
			case VInt:
				kid = kv.T
			case VPtr:
				kid = c.keyID(kv)
			default:
				sfail("rangestart: key of unsupported shape")
			}
			return VBool{sel(start, kid)}, true
		}
	case "rangeseen": // rangeseen(K, k): the K-th range-over-map of the function (source order) has produced key k
		if n, ok := x.Args[0].(ENum); ok {
			fam := fmt.Sprintf("G$rng.%s", n.V)
			var kid string
			switch kv := env.eval(x.Args[1]).(type) {
			case VStr:
				kid = c.keyID(kv)
			case VInt:
				kid = kv.T
			case VPtr:
				kid = c.keyID(kv)
			default:
				sfail("rangeseen: key of unsupported shape")
			}
			return VBool{sel(c.heapGet(env.st, fam, arrSort(sBool)), kid)}, true
		}
	case "hassuffix": // hassuffix(s, "literal"): the string ends with the literal
		sv, ok := env.eval(x.Args[0]).(VStr)
		lit, ok2 := x.Args[1].(EStr)
		if ok && ok2 {
			parts := []string{le(fmt.Sprint(len(lit.V)), sv.Len)}
			for i := 0; i < len(lit.V); i++ {
				parts = append(parts, eq(strAt(sv, plus(minus(sv.Len, fmt.Sprint(len(lit.V))), fmt.Sprint(i))), fmt.Sprint(lit.V[i])))
			}
			return VBool{and(parts...)}, true
		}
	case "typeid": // typeid("pkg.T"): the type tag interface values of dynamic type T carry (compare with typeof(v))
		if lit, ok := x.Args[0].(EStr); ok {
			t := e.lookupType(lit.V)
			if t == nil {
				sfail("typeid: unknown type %s", lit.V)
			}
			return VInt{fmt.Sprint(e.typeID(t))}, true
		}
	case "unbox": // unbox(v, "pkg.T"): the T held by interface value v (meaningful where typeof(v) == typeid("pkg.T"))
		iv, ok := env.eval(x.Args[0]).(VIface)
		lit, ok2 := x.Args[1].(EStr)
		if ok && ok2 {
			t := e.lookupType(lit.V)
			if t == nil {
				sfail("unbox: unknown type %s", lit.V)
			}
			return c.unbox(env.st, iv, t, "true"), true
		}
	case "buflen": // ghost length of a *bytes.Buffer
		return VInt{sel(c.heapGet(env.st, "G$buf.len", arrSort(sInt)), env.evalInt(x.Args[0]))}, true
	case "maphas", "mapval": // maphas(m, k): k is a key of map m; mapval(m, k): the value stored under k
		mt := env.mapType(x.Args[0])
		if mt == nil || !c.mapKeyOK(mt) {
			sfail("%s: %s is not a map with a modelled key type", x.Fn, x.Args[0])
		}
		m := env.evalInt(x.Args[0])
		kid := c.keyID(env.eval(x.Args[1]))
		if x.Fn == "maphas" {
			return VBool{c.mapHas(env.st, mt, m, kid)}, true // (a nil map has no entries: callers state m != nil where it matters)
		}
		v := c.mapVal(env.st, mt, m, kid)
		if sl, ok := v.(VSlice); ok {
			sl.Elem = mt.Elem().Underlying().(*types.Slice).Elem()
			v = sl
		}
		if p, ok := v.(VPtr); ok {
			if pt, ok := mt.Elem().Underlying().(*types.Pointer); ok {
				p.T = pt.Elem()
				v = p
			}
		}
		return v, true
	case "fdIsList", "fdIsMap":
		e.needProto = true
		return VBool{app(x.Fn, env.eval(x.Args[0]).(VIface).Pay)}, true
	case "fdMsg":
		e.needProto = true
		return VInt{app("fdMsg", env.eval(x.Args[0]).(VIface).Pay)}, true
	case "B64OK": // B64OK("std"|"raw", v): v is valid base64 text of that encoding
		if lit, ok := x.Args[0].(EStr); ok && (lit.V == "std" || lit.V == "raw") {
			if v, ok := env.eval(x.Args[1]).(VStr); ok {
				e.needB64 = true
				return VBool{app("b64ok_"+lit.V, v.Arr, v.Off, v.Len)}, true
			}
		}
	case "fdOwner": // the FieldDescriptors collection (its identity) a field descriptor was looked up in
		e.needProto = true
		return VInt{app("fdOwner", env.eval(x.Args[0]).(VIface).Pay)}, true
	case "pay": // identity of the object held by an interface value
		return VInt{env.eval(x.Args[0]).(VIface).Pay}, true
	case "wrcalls": // number of Write calls made on w
		id := readerID(env.eval(x.Args[0]))
		return VInt{sel(c.heapGet(env.st, "G$wr.calls", arrSort(sInt)), id)}, true
	case "errtype": // dynamic type test: errtype(err, "*pkg.Type")
		iv, ok := env.eval(x.Args[0]).(VIface)
		lit, ok2 := x.Args[1].(EStr)
		if ok && ok2 {
			t := e.lookupType(lit.V)
			if t == nil {
				sfail("errtype: unknown type %s", lit.V)
			}
			return VBool{eq(iv.Typ, fmt.Sprint(e.typeID(t)))}, true
		}
	case "raw": // the whole backing array of a byte slice or string, indexed absolutely
		switch s := env.eval(x.Args[0]).(type) {
		case VSlice:
			m := c.heapGet(env.st, "E$uint8", mapSort(2, sInt))
			return VStr{sel(m, s.Base), "0", "0"}, true
		case VStr:
			return VStr{s.Arr, "0", "0"}, true
		}
	case "str": // view a byte slice as a string value (snapshot)
		if s, ok := env.eval(x.Args[0]).(VSlice); ok {
			m := c.heapGet(env.st, "E$uint8", mapSort(2, sInt))
			return VStr{sel(m, s.Base), s.Off, s.Len}, true
		}
	}
	return nil, false
}

// recApp applies a recursive spec function: uninterpreted symbol plus an
// unfolding instance of its definition at these arguments.
func (e *Engine) recApp(env *Env, sf *SpecFunc, args []Val) Val {
	c := env.c
	var flat, sorts []string
	for _, a := range args {
		flat = append(flat, flatten(a)...)
		sorts = append(sorts, leafSorts(a)...)
	}
	if _, ok := e.recDecls[sf.Name]; !ok {
		e.recDecls[sf.Name] = fmt.Sprintf("(declare-fun %s (%s) %s)", sf.Name, strings.Join(sorts, " "), sf.Sort)
		// defining equation as a quantified axiom triggered on applications
		vars := map[string]Val{}
		var decl, bound []string
		for i, p := range sf.Params {
			ts := flatten(args[i])
			ss := leafSorts(args[i])
			names := make([]string, len(ts))
			for j := range ts {
				names[j] = fmt.Sprintf("q.%s.%d", p, j)
				decl = append(decl, fmt.Sprintf("(%s %s)", names[j], ss[j]))
				bound = append(bound, names[j])
			}
			v, _ := rebuild(args[i], names)
			vars[p] = v
		}
		n := &Env{c: c, st: env.st, old: env.old, vars: vars, noUnfold: true}
		body := n.eval(sf.Body)
		bt := ""
		if sf.Sort == sBool {
			bt = body.(VBool).T
		} else {
			bt = body.(VInt).T
		}
		lhs := app(sf.Name, bound...)
		_ = fmt.Sprintf("(assert (forall (%s) (! (= %s %s) :pattern (%s))))", strings.Join(decl, " "), lhs, bt, lhs)
	}
	term := app(sf.Name, flat...)
	var res Val = VInt{term}
	if sf.Sort == sBool {
		res = VBool{term}
	}
	// unfold once when the arguments are ground (no bound variables) and fuel remains
	ground := true
	for _, f := range flat {
		if strings.Contains(f, "q.") {
			ground = false
		}
	}
	key := "unfold:" + term
	if ground && !env.noUnfold && env.unfold < 1 && !c.declared[key] {
		c.declared[key] = true
		vars := map[string]Val{}
		for i, p := range sf.Params {
			vars[p] = args[i]
		}
		n := &Env{c: c, st: env.st, old: env.old, vars: vars, depth: env.depth + 1, unfold: env.unfold + 1}
		body := n.eval(sf.Body)
		var bt string
		if sf.Sort == sBool {
			bt = body.(VBool).T
		} else {
			bt = body.(VInt).T
		}
		c.assert(eq(term, bt))
	}
	return res
}

func isBoolType(t types.Type) bool {
	b, ok := t.Underlying().(*types.Basic)
	return ok && b.Info()&types.IsBoolean != 0
}

func atoiSafe(s string) (int, bool) {
	n, err := strconv.Atoi(s)
	return n, err == nil
}

var _ = token.NoPos

// predApp applies an opaque pure predicate: an uninterpreted symbol whose
// definition is one quantified axiom triggered on its applications.
func (e *Engine) predApp(env *Env, sf *SpecFunc, args []Val) Val {
	c := env.c
	var flat, sorts []string
	for _, a := range args {
		flat = append(flat, flatten(a)...)
		sorts = append(sorts, leafSorts(a)...)
	}
	if _, ok := e.recDecls[sf.Name]; !ok {
		e.recDecls[sf.Name] = fmt.Sprintf("(declare-fun %s (%s) Bool)", sf.Name, strings.Join(sorts, " "))
		vars := map[string]Val{}
		var decl, bound []string
		for i, p := range sf.Params {
			ts := flatten(args[i])
			ss := leafSorts(args[i])
			names := make([]string, len(ts))
			for j := range ts {
				names[j] = fmt.Sprintf("q.%s.%d", p, j)
				decl = append(decl, fmt.Sprintf("(%s %s)", names[j], ss[j]))
				bound = append(bound, names[j])
			}
			v, _ := rebuild(args[i], names)
			vars[p] = v
		}
		n := &Env{c: c, st: &State{cells: map[*ssa.Alloc]Val{}, heap: map[string]string{}, reach: "true"}, vars: vars, noUnfold: true}
		n.old = n.st
		nh := len(n.st.heap)
		body := n.evalBool(sf.Body)
		if len(n.st.heap) != nh {
			sfail("pred %s reads the heap; only pure predicates can be opaque", sf.Name)
		}
		lhs := app(sf.Name, bound...)
		e.recAxioms[sf.Name] = fmt.Sprintf("(assert (forall (%s) (! (= %s %s) :pattern (%s))))", strings.Join(decl, " "), lhs, body, lhs)
	}
	return VBool{app(sf.Name, flat...)}
}

// rngFam: the ghost family holding the keys produced so far by a range over a map
// (numbered by the position of the range among the function's ranges over maps).
func (c *FnCtx) rngFam(rng *ssa.Range) string {
	k := 0
	type posRange struct {
		pos token.Pos
		r   *ssa.Range
	}
	var all []posRange
	for _, b := range c.fn.Blocks {
		for _, in := range b.Instrs {
			if r, ok := in.(*ssa.Range); ok {
				if _, isMap := r.X.Type().Underlying().(*types.Map); isMap {
					all = append(all, posRange{r.Pos(), r})
				}
			}
		}
	}
	sort.Slice(all, func(i, j int) bool { return all[i].pos < all[j].pos })
	for i, pr := range all {
		if pr.r == rng {
			k = i + 1
		}
	}
	return fmt.Sprintf("G$rng.%d", k)
}
