package main

// Symbolic values: trees whose leaves are SMT terms.

import (
	"fmt"
	"os"
	"go/types"
	"regexp"
	"strings"

	"golang.org/x/tools/go/ssa"
)

type Val interface{ isVal() }

type VInt struct{ T string }  // all integer kinds, refs to heap objects, map/chan/func ids
type VBool struct{ T string } //
type VReal struct{ T string } // floats as reals
type VStr struct{ Arr, Off, Len string }
type VSlice struct {
	Base, Off, Len, Cap string
	Elem                types.Type
	Reg                 string // read-only region the backing array lives in ("" = ordinary heap)
}
type VIface struct{ Typ, Pay string } // Typ == 0 <=> nil interface
type VStruct struct {
	F []Val
	T *types.Struct
	N string // type name for heap naming
}
type VTuple struct{ E []Val }

// VPtr is a pointer with a structured address.
type VPtr struct {
	Root  int        // rootLocal, rootObj, rootElem, rootGlobal, rootNil
	Alloc *ssa.Alloc // rootLocal
	Ref   string     // rootObj: object ref (Int term); rootElem: base
	Idx   string     // rootElem: absolute index in backing store
	Glob  *ssa.Global
	T     types.Type // type of the root object / element
	Path  []int      // field path below the root
	Reg   string     // rootElem: region of the backing array
}

// VOpaque is a value the engine does not model (channels, funcs outside the subset ...).
type VOpaque struct {
	T string // Int term identifying it
}

const (
	rootLocal = iota
	rootObj
	rootElem
	rootGlobal
)

func (VInt) isVal()    {}
func (VBool) isVal()   {}
func (VReal) isVal()   {}
func (VStr) isVal()    {}
func (VSlice) isVal()  {}
func (VIface) isVal()  {}
func (VStruct) isVal() {}
func (VTuple) isVal()  {}
func (VPtr) isVal()    {}
func (VOpaque) isVal() {}

// flatten returns the leaf terms of v in a canonical order.
func flatten(v Val) []string {
	switch v := v.(type) {
	case VInt:
		return []string{v.T}
	case VBool:
		return []string{v.T}
	case VReal:
		return []string{v.T}
	case VOpaque:
		return []string{v.T}
	case VStr:
		return []string{v.Arr, v.Off, v.Len}
	case VSlice:
		return []string{v.Base, v.Off, v.Len, v.Cap}
	case VIface:
		return []string{v.Typ, v.Pay}
	case VStruct:
		var out []string
		for _, f := range v.F {
			out = append(out, flatten(f)...)
		}
		return out
	case VTuple:
		var out []string
		for _, f := range v.E {
			out = append(out, flatten(f)...)
		}
		return out
	case VPtr:
		if v.Root == rootObj && len(v.Path) == 0 {
			return []string{v.Ref}
		}
		if v.Root == rootElem && len(v.Path) == 0 {
			// a pointer to a slice element kept in memory: an opaque non-nil reference
			// (what is read through it later is unconstrained)
			needElemPtr = true
			return []string{app("elemptr", v.Ref, v.Idx)}
		}
		if v.Root == rootObj && len(v.Path) > 0 {
			// a pointer to a field of an object kept in memory (&c.pool): an opaque non-nil reference
			// (what is read through it later is unconstrained)
			needElemPtr = true
			code := 0
			for _, f := range v.Path {
				code = code*64 + f + 1
			}
			return []string{app("elemptr", v.Ref, fmt.Sprint(-code))}
		}
		panic(unsupported("flatten of interior pointer"))
	case nil:
		return nil
	}
	panic(fmt.Sprintf("flatten: %T", v))
}

func leafSorts(v Val) []string {
	switch v := v.(type) {
	case VInt, VOpaque:
		return []string{sInt}
	case VBool:
		return []string{sBool}
	case VReal:
		return []string{sReal}
	case VStr:
		return []string{sAI, sInt, sInt}
	case VSlice:
		return []string{sInt, sInt, sInt, sInt}
	case VIface:
		return []string{sInt, sInt}
	case VStruct:
		var out []string
		for _, f := range v.F {
			out = append(out, leafSorts(f)...)
		}
		return out
	case VTuple:
		var out []string
		for _, f := range v.E {
			out = append(out, leafSorts(f)...)
		}
		return out
	case VPtr:
		return []string{sInt}
	case nil:
		return nil
	}
	panic(fmt.Sprintf("leafSorts: %T", v))
}

// rebuild makes a value shaped like proto from leaf terms.
func rebuild(proto Val, ts []string) (Val, []string) {
	switch v := proto.(type) {
	case VInt:
		return VInt{ts[0]}, ts[1:]
	case VOpaque:
		return VOpaque{ts[0]}, ts[1:]
	case VBool:
		return VBool{ts[0]}, ts[1:]
	case VReal:
		return VReal{ts[0]}, ts[1:]
	case VStr:
		return VStr{ts[0], ts[1], ts[2]}, ts[3:]
	case VSlice:
		return VSlice{ts[0], ts[1], ts[2], ts[3], v.Elem, v.Reg}, ts[4:]
	case VIface:
		return VIface{ts[0], ts[1]}, ts[2:]
	case VStruct:
		out := VStruct{T: v.T, N: v.N}
		for _, f := range v.F {
			var x Val
			x, ts = rebuild(f, ts)
			out.F = append(out.F, x)
		}
		return out, ts
	case VTuple:
		out := VTuple{}
		for _, f := range v.E {
			var x Val
			x, ts = rebuild(f, ts)
			out.E = append(out.E, x)
		}
		return out, ts
	case VPtr:
		return VPtr{Root: rootObj, Ref: ts[0], T: v.T}, ts[1:]
	case nil:
		return nil, ts
	}
	panic(fmt.Sprintf("rebuild: %T", proto))
}

var needElemPtr bool

type unsupportedErr struct{ msg string }

func (e unsupportedErr) Error() string { return "unsupported: " + e.msg }
func unsupported(format string, a ...any) unsupportedErr {
	if os.Getenv("GOVC_DEBUG") != "" {
		panic(fmt.Sprintf(format, a...))
	}
	return unsupportedErr{fmt.Sprintf(format, a...)}
}

// ---------------------------------------------------------------------------
// Types

func isInteger(t types.Type) bool {
	b, ok := t.Underlying().(*types.Basic)
	return ok && b.Info()&types.IsInteger != 0
}

func isUnsigned(t types.Type) bool {
	b, ok := t.Underlying().(*types.Basic)
	return ok && b.Info()&types.IsUnsigned != 0
}

func intBits(t types.Type) int {
	b := t.Underlying().(*types.Basic)
	switch b.Kind() {
	case types.Int8, types.Uint8:
		return 8
	case types.Int16, types.Uint16:
		return 16
	case types.Int32, types.Uint32:
		return 32
	default:
		return 64
	}
}

var pow2 = map[int]string{
	7: "128", 8: "256", 15: "32768", 16: "65536", 31: "2147483648", 32: "4294967296",
	63: "9223372036854775808", 64: "18446744073709551616",
}

func intRange(t types.Type) (lo, hi string) {
	bits := intBits(t)
	if isUnsigned(t) {
		return "0", app("-", pow2[bits], "1")
	}
	return app("-", pow2[bits-1]), app("-", pow2[bits-1], "1")
}

var byteRe = regexp.MustCompile(`\bbyte\b`)
var runeRe = regexp.MustCompile(`\brune\b`)

// typeName gives a stable short name for heap-map naming.
func typeName(t types.Type) string {
	s := types.TypeString(t, func(p *types.Package) string {
		if p.Path() == "larking.io/larking" {
			return ""
		}
		return p.Name()
	})
	s = byteRe.ReplaceAllString(s, "uint8")
	s = runeRe.ReplaceAllString(s, "int32")
	s = strings.ReplaceAll(s, "interface{}", "any")
	r := strings.NewReplacer(" ", "_", "*", "P_", "[", "L", "]", "J", "(", "_", ")", "_", "{", "_", "}", "_", ",", "_", ";", "_", "/", "_")
	return r.Replace(s)
}
