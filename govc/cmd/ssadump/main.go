package main

import (
	"os"

	"golang.org/x/tools/go/packages"
	"golang.org/x/tools/go/ssa"
	"golang.org/x/tools/go/ssa/ssautil"
)

func main() {
	cfg := &packages.Config{Mode: packages.LoadAllSyntax, Dir: "/repo", BuildFlags: []string{"-tags=verif"}, Env: append(os.Environ(), "GOFLAGS=-mod=mod")}
	pkgs, err := packages.Load(cfg, "./larking")
	if err != nil {
		panic(err)
	}
	if packages.PrintErrors(pkgs) > 0 {
		os.Exit(1)
	}
	prog, _ := ssautil.AllPackages(pkgs, ssa.NaiveForm|ssa.GlobalDebug)
	prog.Build()
	want := map[string]bool{}
	for _, a := range os.Args[1:] {
		want[a] = true
	}
	for fn := range ssautil.AllFunctions(prog) {
		if want[fn.String()] {
			fn.WriteTo(os.Stdout)
		}
	}
}
