package main

// Contract language: lexer, parser, contract-file reader.

import (
	"fmt"
	"os"
	"strconv"
	"strings"
	"unicode"
)

// ---------------------------------------------------------------------------
// Expression AST

type Expr interface{ String() string }

type (
	ENum   struct{ V string } // decimal
	EBool  struct{ V bool }
	EStr   struct{ V string }
	ENil   struct{}
	EIdent struct{ Name string }
	EUn    struct {
		Op string
		X  Expr
	}
	EBin struct {
		Op   string
		X, Y Expr
	}
	ECond  struct{ C, A, B Expr }
	ECall  struct {
		Fn   string
		Args []Expr
	}
	EIndex struct{ X, I Expr }
	ESlice struct{ X, Lo, Hi Expr } // Lo/Hi may be nil
	EField struct {
		X Expr
		F string
	}
	EQuant struct {
		Forall bool
		Vars   []string
		Body   Expr
		Pats   []Expr
		Alts   [][]Expr // further alternative pattern groups: {a, b} {c}
	}
)

func (e ENum) String() string   { return e.V }
func (e EBool) String() string  { return fmt.Sprint(e.V) }
func (e EStr) String() string   { return strconv.Quote(e.V) }
func (e ENil) String() string   { return "nil" }
func (e EIdent) String() string { return e.Name }
func (e EUn) String() string    { return e.Op + e.X.String() }
func (e EBin) String() string   { return "(" + e.X.String() + " " + e.Op + " " + e.Y.String() + ")" }
func (e ECond) String() string {
	return "(" + e.C.String() + " ? " + e.A.String() + " : " + e.B.String() + ")"
}
func (e ECall) String() string {
	var as []string
	for _, a := range e.Args {
		as = append(as, a.String())
	}
	return e.Fn + "(" + strings.Join(as, ", ") + ")"
}
func (e EIndex) String() string { return e.X.String() + "[" + e.I.String() + "]" }
func (e ESlice) String() string {
	lo, hi := "", ""
	if e.Lo != nil {
		lo = e.Lo.String()
	}
	if e.Hi != nil {
		hi = e.Hi.String()
	}
	return e.X.String() + "[" + lo + ":" + hi + "]"
}
func (e EField) String() string { return e.X.String() + "." + e.F }
func (e EQuant) String() string {
	q := "exists"
	if e.Forall {
		q = "forall"
	}
	return "(" + q + " " + strings.Join(e.Vars, ", ") + " :: " + e.Body.String() + ")"
}

// ---------------------------------------------------------------------------
// Lexer

type tok struct {
	k string // "id", "num", "str", "op", "eof"
	v string
}

func lexSpec(s string) ([]tok, error) {
	var out []tok
	i := 0
	for i < len(s) {
		c := s[i]
		switch {
		case c == ' ' || c == '\t' || c == '\n':
			i++
		case c == '/' && i+1 < len(s) && s[i+1] == '/':
			// comment to end of line
			for i < len(s) && s[i] != '\n' {
				i++
			}
		case unicode.IsLetter(rune(c)) || c == '_':
			j := i
			for j < len(s) && (unicode.IsLetter(rune(s[j])) || unicode.IsDigit(rune(s[j])) || s[j] == '_' || s[j] == '#' || s[j] == '$') {
				j++
			}
			out = append(out, tok{"id", s[i:j]})
			i = j
		case c >= '0' && c <= '9':
			j := i
			for j < len(s) && (unicode.IsLetter(rune(s[j])) || unicode.IsDigit(rune(s[j])) || s[j] == '_') {
				j++
			}
			txt := strings.ReplaceAll(s[i:j], "_", "")
			n, ok := parseBigInt(txt)
			if !ok {
				return nil, fmt.Errorf("bad number %q", s[i:j])
			}
			out = append(out, tok{"num", n})
			i = j
		case c == '\'':
			j := i + 1
			for j < len(s) && s[j] != '\'' {
				if s[j] == '\\' {
					j++
				}
				j++
			}
			if j >= len(s) {
				return nil, fmt.Errorf("unterminated char")
			}
			r, _, _, err := strconv.UnquoteChar(s[i+1:j], '\'')
			if err != nil {
				return nil, fmt.Errorf("bad char %s", s[i:j+1])
			}
			out = append(out, tok{"num", fmt.Sprint(int(r))})
			i = j + 1
		case c == '"':
			j := i + 1
			for j < len(s) && s[j] != '"' {
				if s[j] == '\\' {
					j++
				}
				j++
			}
			if j >= len(s) {
				return nil, fmt.Errorf("unterminated string")
			}
			v, err := strconv.Unquote(s[i : j+1])
			if err != nil {
				return nil, err
			}
			out = append(out, tok{"str", v})
			i = j + 1
		default:
			ops := []string{"<==>", "==>", "::", "==", "!=", "<=", ">=", "&&", "||", "<<", ">>", "+", "-", "*", "/", "%", "<", ">", "!", "(", ")", "[", "]", "{", "}", ",", ":", ".", "?", "&", "|", "^", "="}
			found := false
			for _, op := range ops {
				if strings.HasPrefix(s[i:], op) {
					out = append(out, tok{"op", op})
					i += len(op)
					found = true
					break
				}
			}
			if !found {
				return nil, fmt.Errorf("unexpected character %q", c)
			}
		}
	}
	out = append(out, tok{"eof", ""})
	return out, nil
}

func parseBigInt(s string) (string, bool) {
	// returns decimal string
	if strings.HasPrefix(s, "0x") || strings.HasPrefix(s, "0X") {
		v, err := strconv.ParseUint(s[2:], 16, 64)
		if err != nil {
			return "", false
		}
		return strconv.FormatUint(v, 10), true
	}
	for _, c := range s {
		if c < '0' || c > '9' {
			return "", false
		}
	}
	s = strings.TrimLeft(s, "0")
	if s == "" {
		s = "0"
	}
	return s, true
}

// ---------------------------------------------------------------------------
// Parser

type parser struct {
	toks []tok
	p    int
}

func (p *parser) peek() tok { return p.toks[p.p] }
func (p *parser) next() tok { t := p.toks[p.p]; p.p++; return t }
func (p *parser) isOp(v string) bool {
	t := p.peek()
	return t.k == "op" && t.v == v
}
func (p *parser) expect(v string) error {
	t := p.next()
	if t.k != "op" || t.v != v {
		return fmt.Errorf("expected %q, got %q", v, t.v)
	}
	return nil
}

func parseExpr(s string) (Expr, error) {
	toks, err := lexSpec(s)
	if err != nil {
		return nil, err
	}
	p := &parser{toks: toks}
	e, err := p.iff()
	if err != nil {
		return nil, fmt.Errorf("%v in %q", err, s)
	}
	if p.peek().k != "eof" {
		return nil, fmt.Errorf("trailing %q in %q", p.peek().v, s)
	}
	return e, nil
}

func (p *parser) iff() (Expr, error) {
	x, err := p.imp()
	if err != nil {
		return nil, err
	}
	for p.isOp("<==>") {
		p.next()
		y, err := p.imp()
		if err != nil {
			return nil, err
		}
		x = EBin{"<==>", x, y}
	}
	return x, nil
}

func (p *parser) imp() (Expr, error) {
	x, err := p.cond()
	if err != nil {
		return nil, err
	}
	if p.isOp("==>") {
		p.next()
		y, err := p.imp()
		if err != nil {
			return nil, err
		}
		return EBin{"==>", x, y}, nil
	}
	return x, nil
}

func (p *parser) cond() (Expr, error) {
	x, err := p.bin(0)
	if err != nil {
		return nil, err
	}
	if p.isOp("?") {
		p.next()
		a, err := p.cond()
		if err != nil {
			return nil, err
		}
		if err := p.expect(":"); err != nil {
			return nil, err
		}
		b, err := p.cond()
		if err != nil {
			return nil, err
		}
		return ECond{x, a, b}, nil
	}
	return x, nil
}

var binLevels = [][]string{
	{"||"},
	{"&&"},
	{"==", "!=", "<", "<=", ">", ">="},
	{"+", "-", "|", "^"},
	{"*", "/", "%", "<<", ">>", "&"},
}

func (p *parser) bin(level int) (Expr, error) {
	if level == len(binLevels) {
		return p.unary()
	}
	x, err := p.bin(level + 1)
	if err != nil {
		return nil, err
	}
	isCmp := level == 2
	var chain Expr
	for {
		t := p.peek()
		if t.k != "op" {
			break
		}
		ok := false
		for _, op := range binLevels[level] {
			if t.v == op {
				ok = true
			}
		}
		if !ok {
			break
		}
		p.next()
		y, err := p.bin(level + 1)
		if err != nil {
			return nil, err
		}
		if isCmp {
			c := EBin{t.v, x, y}
			if chain == nil {
				chain = c
			} else {
				chain = EBin{"&&", chain, c}
			}
			x = y
		} else {
			x = EBin{t.v, x, y}
		}
	}
	if isCmp && chain != nil {
		return chain, nil
	}
	return x, nil
}

func (p *parser) unary() (Expr, error) {
	if p.isOp("!") || p.isOp("-") || p.isOp("&") {
		op := p.next().v
		x, err := p.unary()
		if err != nil {
			return nil, err
		}
		return EUn{op, x}, nil
	}
	return p.postfix()
}

func (p *parser) postfix() (Expr, error) {
	x, err := p.primary()
	if err != nil {
		return nil, err
	}
	for {
		switch {
		case p.isOp("("):
			id, ok := x.(EIdent)
			if !ok {
				if f, ok2 := x.(EField); ok2 {
					// pkg.Func(...)
					if b, ok3 := f.X.(EIdent); ok3 {
						id, ok = EIdent{b.Name + "." + f.F}, true
					}
				}
				if !ok {
					return nil, fmt.Errorf("call of non-identifier %s", x)
				}
			}
			p.next()
			var args []Expr
			for !p.isOp(")") {
				a, err := p.iff()
				if err != nil {
					return nil, err
				}
				args = append(args, a)
				if p.isOp(",") {
					p.next()
				} else {
					break
				}
			}
			if err := p.expect(")"); err != nil {
				return nil, err
			}
			x = ECall{id.Name, args}
		case p.isOp("["):
			p.next()
			var lo, hi Expr
			if !p.isOp(":") {
				lo, err = p.iff()
				if err != nil {
					return nil, err
				}
			}
			if p.isOp(":") {
				p.next()
				if !p.isOp("]") {
					hi, err = p.iff()
					if err != nil {
						return nil, err
					}
				}
				if err := p.expect("]"); err != nil {
					return nil, err
				}
				x = ESlice{x, lo, hi}
			} else {
				if err := p.expect("]"); err != nil {
					return nil, err
				}
				x = EIndex{x, lo}
			}
		case p.isOp("."):
			p.next()
			t := p.next()
			if t.k != "id" {
				return nil, fmt.Errorf("expected field name, got %q", t.v)
			}
			x = EField{x, t.v}
		default:
			return x, nil
		}
	}
}

func (p *parser) primary() (Expr, error) {
	t := p.next()
	switch t.k {
	case "num":
		return ENum{t.v}, nil
	case "str":
		return EStr{t.v}, nil
	case "id":
		switch t.v {
		case "true":
			return EBool{true}, nil
		case "false":
			return EBool{false}, nil
		case "nil":
			return ENil{}, nil
		case "forall", "exists":
			var vars []string
			for {
				v := p.next()
				if v.k != "id" {
					return nil, fmt.Errorf("expected bound variable, got %q", v.v)
				}
				vars = append(vars, v.v)
				if p.isOp(",") {
					p.next()
					continue
				}
				break
			}
			if err := p.expect("::"); err != nil {
				return nil, err
			}
			var pats []Expr
			if p.isOp("{") {
				p.next()
				for {
					pe, err := p.iff()
					if err != nil {
						return nil, err
					}
					pats = append(pats, pe)
					if p.isOp(",") {
						p.next()
						continue
					}
					break
				}
				if err := p.expect("}"); err != nil {
					return nil, err
				}
			}
			var alts [][]Expr
			for p.isOp("{") {
				p.next()
				var g []Expr
				for {
					pe, err := p.iff()
					if err != nil {
						return nil, err
					}
					g = append(g, pe)
					if p.isOp(",") {
						p.next()
						continue
					}
					break
				}
				if err := p.expect("}"); err != nil {
					return nil, err
				}
				alts = append(alts, g)
			}
			body, err := p.iff()
			if err != nil {
				return nil, err
			}
			return EQuant{t.v == "forall", vars, body, pats, alts}, nil
		}
		return EIdent{t.v}, nil
	case "op":
		if t.v == "(" {
			e, err := p.iff()
			if err != nil {
				return nil, err
			}
			if err := p.expect(")"); err != nil {
				return nil, err
			}
			return e, nil
		}
	}
	return nil, fmt.Errorf("unexpected token %q", t.v)
}

// ---------------------------------------------------------------------------
// Contract file

type Clause struct {
	Kind string // requires, ensures, invariant, decreases, ...
	Name string // clause label (optional, e.g. ensures@exact)
	Loop int    // for loop clauses
	E    Expr
	Text string
	At    string   // source-line anchor for assert/assume
	AtOrd int
	Only string   // assumption tag (e.g. "ReaderProgress" for decreases ... assuming X)
	Tags []string // properties served (overrides function-level)
	Target *ECall // ghostset: the gfa(obj, "name", index) being assigned
}

type SpecFunc struct {
	Name   string
	Params []string
	Body   Expr
	Opaque bool   // pure predicate kept as an uninterpreted symbol with one defining axiom (triggered on applications)
	Rec    bool   // recursive: uninterpreted + unfolding instances
	Sort   string // result sort for rec (Int/Bool)
	Text   string
}

type FuncContract struct {
	Key      string
	Serves   []string
	Partial  []string // obligation kinds claimed when partial (empty = full)
	IsPart   bool
	Trusted  bool // contract is assumed, body not verified (listed in evidence)
	Pure     bool
	Returns  []string
	Clauses  []Clause
	Modifies []string
	ModFresh []string // subset of Modifies written only in objects allocated during the call ("modifies fresh X")
	Ghosts   []Clause // ghost NAME = expr evaluated at entry
	Oracle   string   // Go boolean expression for replay
	Counters [][2]string // ghost call counters: name, source-text prefix
	Refines  string   // interface-method contract this implementation must satisfy
	Params   []string // parameter names (interface contracts)
	Witness  string   // Go function (replay_helpers.go) running known-tricky inputs on the real code
	WitnessFor [][2]string // (obligation name substring, witness function): more specific witnesses
	Applies  string   // spec predicate that this func(rune) bool computes (links function values to the spec)
	Dead     []string // source lines expected to be unreachable (defensive code behind an assumed contract)
	Line     int
}

type Immutable struct {
	Prefix string // heap family prefix, e.g. F$Mux.opts
	Except string // function allowed to initialise it
}

type Contracts struct {
	Funcs    map[string]*FuncContract
	Order    []string
	Specs    map[string]*SpecFunc
	Consts   map[string]string // named integer constants
	Globals  []string
	Immutables []Immutable
	Regions  map[string]string // heap family of a slice-typed field -> read-only region of its backing arrays
	Dets     map[string]*DetFunc // library calls modelled as deterministic functions of their arguments, by call name
	DetNames map[string]*DetFunc // ... by spec name
	Source   string
}

// DetFunc: det NAME "call name" kind — the library call is a pure, deterministic function of
// its arguments (an uninterpreted function the specs can apply as NAME(args)); kind is the
// result shape: string, iface, bool, int.
type DetFunc struct {
	Name, Call, Kind string
}

var clauseKeywords = map[string]bool{
	"det": true,
	"spec": true, "rec": true, "pred": true, "func": true, "region": true, "immutable": true, "lib": true, "iface": true, "requires": true, "ensures": true,
	"loop": true, "returns": true, "modifies": true, "ghost": true, "oracle": true,
	"const": true, "pure": true, "trusted": true, "assert": true, "assume": true, "cover": true, "deadcode": true, "applies": true, "witness": true, "decreases": true, "refines": true, "params": true, "count": true, "callsites": true,
}

func loadContracts(paths ...string) (*Contracts, error) {
	cs := &Contracts{Funcs: map[string]*FuncContract{}, Specs: map[string]*SpecFunc{}, Consts: map[string]string{}, Regions: map[string]string{}, Dets: map[string]*DetFunc{}, DetNames: map[string]*DetFunc{}}
	for _, path := range paths {
		data, err := os.ReadFile(path)
		if err != nil {
			return nil, err
		}
		cs.Source += string(data)
		if err := cs.parse(path, string(data)); err != nil {
			return nil, err
		}
	}
	return cs, nil
}

// anchorText extracts a leading anchor in double quotes or back quotes and returns it with the rest.
func anchorText(b string) (string, string, bool) {
	b = strings.TrimSpace(b)
	if b == "" {
		return "", "", false
	}
	q := b[0]
	if q != '"' && q != '`' {
		return "", "", false
	}
	end := strings.IndexByte(b[1:], q)
	if end < 0 {
		return "", "", false
	}
	return b[1 : 1+end], strings.TrimSpace(b[end+2:]), true
}

func (cs *Contracts) parse(path, data string) error {
	type rawClause struct {
		text string
		line int
	}
	var clauses []rawClause
	for i, line := range strings.Split(data, "\n") {
		t := strings.TrimSpace(line)
		if !strings.HasPrefix(t, "//@") {
			continue
		}
		rest := strings.TrimSpace(t[3:])
		if rest == "" || strings.HasPrefix(rest, "//") {
			continue
		}
		if k := strings.Index(rest, " //"); k >= 0 && !strings.Contains(rest[:k], "\"") {
			rest = strings.TrimSpace(rest[:k])
		}
		w := strings.Fields(rest)[0]
		if clauseKeywords[w] {
			clauses = append(clauses, rawClause{rest, i + 1})
		} else if len(clauses) > 0 {
			clauses[len(clauses)-1].text += " " + rest
		} else {
			return fmt.Errorf("%s:%d: continuation without clause", path, i+1)
		}
	}
	var cur *FuncContract
	for _, rc := range clauses {
		fail := func(err error) error { return fmt.Errorf("%s:%d: %v", path, rc.line, err) }
		w := strings.Fields(rc.text)
		kw := w[0]
		body := strings.TrimSpace(rc.text[len(kw):])
		switch kw {
		case "immutable":
			// immutable F$Type.field : no store to these heap families outside the listed constructor (checked by scan)
			f := strings.Fields(body)
			im := Immutable{Prefix: f[0]}
			if len(f) >= 3 && f[1] == "except" {
				im.Except = f[2]
			}
			cs.Immutables = append(cs.Immutables, im)
			cur = nil
		case "det":
			f := strings.Fields(body)
			call, rest, ok := anchorText(strings.TrimSpace(body[len(f[0]):]))
			kind := strings.TrimSpace(rest)
			if !ok || (kind != "string" && kind != "iface" && kind != "bool" && kind != "int") {
				return fail(fmt.Errorf("bad det clause: det NAME \"call name\" string|iface|bool|int"))
			}
			d := &DetFunc{Name: f[0], Call: call, Kind: kind}
			cs.Dets[call] = d
			cs.DetNames[f[0]] = d
			cur = nil
		case "region":
			// region TYPE.field : the arrays referenced by that slice field are never written after the field is set
			cs.Regions["F$"+strings.TrimSpace(body)] = strings.TrimSpace(body)
			cur = nil
		case "const":
			// const NAME = number
			parts := strings.SplitN(body, "=", 2)
			if len(parts) != 2 {
				return fail(fmt.Errorf("bad const"))
			}
			e, err := parseExpr(parts[1])
			if err != nil {
				return fail(err)
			}
			n, ok := constEval(e, cs.Consts)
			if !ok {
				return fail(fmt.Errorf("const not constant"))
			}
			cs.Consts[strings.TrimSpace(parts[0])] = n
		case "spec", "rec", "pred":
			// spec NAME(a, b) = expr ; rec NAME(a, b) Int = expr
			eqi := strings.Index(body, "=")
			for eqi >= 0 && (strings.HasPrefix(body[eqi:], "==") || (eqi > 0 && strings.ContainsAny(body[eqi-1:eqi], "=!<>"))) {
				nx := strings.Index(body[eqi+2:], "=")
				if nx < 0 {
					eqi = -1
				} else {
					eqi += 2 + nx
				}
			}
			if eqi < 0 {
				return fail(fmt.Errorf("bad spec"))
			}
			head := strings.TrimSpace(body[:eqi])
			lp := strings.Index(head, "(")
			rp := strings.LastIndex(head, ")")
			if lp < 0 || rp < lp {
				return fail(fmt.Errorf("bad spec head %q", head))
			}
			sf := &SpecFunc{Name: strings.TrimSpace(head[:lp]), Rec: kw == "rec", Opaque: kw == "pred", Text: rc.text}
			if kw == "pred" {
				sf.Sort = "Bool"
			}
			for _, a := range strings.Split(head[lp+1:rp], ",") {
				if a = strings.TrimSpace(a); a != "" {
					sf.Params = append(sf.Params, a)
				}
			}
			if srt := strings.TrimSpace(head[rp+1:]); srt != "" {
				sf.Sort = srt
			}
			if sf.Sort == "" {
				sf.Sort = "Int"
			}
			e, err := parseExpr(body[eqi+1:])
			if err != nil {
				return fail(err)
			}
			sf.Body = e
			cs.Specs[sf.Name] = sf
			cur = nil
		case "func", "lib", "iface":
			// func KEY [serves C01 C02] [partial kinds...]
			key := w[1]
			i := 2
			if strings.HasPrefix(key, "(") && !strings.Contains(key, ")") {
				key += " " + w[2]
				i = 3
			}
			cur = &FuncContract{Key: key, Line: rc.line}
			if kw == "lib" || kw == "iface" {
				cur.Trusted = true
			}
			mode := ""
			for ; i < len(w); i++ {
				switch w[i] {
				case "serves", "partial":
					mode = w[i]
					if mode == "partial" {
						cur.IsPart = true
					}
				case "trusted":
					cur.Trusted = true
				case "pure":
					cur.Pure = true
				default:
					if mode == "serves" {
						cur.Serves = append(cur.Serves, w[i])
					} else if mode == "partial" {
						cur.Partial = append(cur.Partial, w[i])
					} else {
						return fail(fmt.Errorf("unexpected %q", w[i]))
					}
				}
			}
			if _, dup := cs.Funcs[key]; dup {
				return fail(fmt.Errorf("duplicate contract for %s", key))
			}
			cs.Funcs[key] = cur
			cs.Order = append(cs.Order, key)
		default:
			if cur == nil {
				return fail(fmt.Errorf("clause %q outside func", kw))
			}
			switch kw {
			case "pure":
				cur.Pure = true
			case "trusted":
				cur.Trusted = true
			case "returns":
				b := strings.Trim(body, "() ")
				for _, a := range strings.Split(b, ",") {
					if a = strings.TrimSpace(a); a != "" {
						cur.Returns = append(cur.Returns, a)
					}
				}
			case "modifies":
				for _, a := range strings.Split(body, ",") {
					if a = strings.TrimSpace(a); a != "" {
						if strings.HasPrefix(a, "fresh ") {
							a = strings.TrimSpace(a[6:])
							cur.ModFresh = append(cur.ModFresh, a)
						}
						cur.Modifies = append(cur.Modifies, a)
					}
				}
			case "oracle":
				cur.Oracle = body
			case "decreases":
				e, err := parseExpr(body)
				if err != nil {
					return fail(err)
				}
				cur.Clauses = append(cur.Clauses, Clause{Kind: "recdec", E: e, Text: body})
			case "count":
				// count NAME `call text prefix` : ghost counter of executed calls whose source text starts with the prefix
				f := strings.Fields(body)
				at, _, ok := anchorText(strings.TrimSpace(body[len(f[0]):]))
				if !ok {
					return fail(fmt.Errorf("bad count clause"))
				}
				cur.Counters = append(cur.Counters, [2]string{f[0], at})
			case "callsites":
				// callsites `call text prefix` N : the body contains exactly N call sites with that source text prefix
				at, rest, ok := anchorText(body)
				n := 0
				if ok {
					_, err := fmt.Sscanf(rest, "%d", &n)
					ok = err == nil
				}
				if !ok {
					return fail(fmt.Errorf("bad callsites clause"))
				}
				cur.Clauses = append(cur.Clauses, Clause{Kind: "callsites", At: at, AtOrd: n, Text: body})
			case "refines":
				cur.Refines = strings.TrimSpace(body)
			case "params":
				b := strings.Trim(body, "() ")
				for _, a := range strings.Split(b, ",") {
					cur.Params = append(cur.Params, strings.TrimSpace(a))
				}
			case "witness":
				// witness Fn            : the function's default witness
				// witness Fn for TEXT   : the witness for obligations whose name contains TEXT
				if i := strings.Index(body, " for "); i >= 0 {
					cur.WitnessFor = append(cur.WitnessFor, [2]string{strings.TrimSpace(body[i+5:]), strings.TrimSpace(body[:i])})
				} else {
					cur.Witness = strings.TrimSpace(body)
				}
			case "applies":
				cur.Applies = strings.TrimSpace(body)
			case "deadcode":
				cur.Dead = append(cur.Dead, strings.Trim(body, "\" "))
			case "ghost":
				if strings.HasPrefix(body, "at ") {
					// ghost at "line text"[#k] NAME = expr : ghost variable set when execution reaches that line
					at, b, okAnchor := anchorText(body[3:])
					if !okAnchor {
						return fail(fmt.Errorf("bad anchor"))
					}
					cl := Clause{Kind: "ghostat", At: at, AtOrd: 1, Text: body}
					if strings.HasPrefix(b, "#") {
						fmt.Sscanf(b, "#%d", &cl.AtOrd)
						b = strings.TrimSpace(b[strings.IndexAny(b, " \t"):])
					}
					parts := strings.SplitN(b, "=", 2)
					if len(parts) != 2 {
						return fail(fmt.Errorf("bad ghost"))
					}
					cl.Name = strings.TrimSpace(parts[0])
					e, err := parseExpr(parts[1])
					if err != nil {
						return fail(err)
					}
					cl.E = e
					if strings.HasPrefix(cl.Name, "set ") {
						// ghost at "line" set gfa(obj, "name", index) = expr : ghost array update
						t, err := parseExpr(strings.TrimSpace(cl.Name[4:]))
						call, ok := t.(ECall)
						if err != nil || !ok || !((call.Fn == "gfa" && len(call.Args) == 3) || (call.Fn == "gf" && len(call.Args) == 2)) {
							return fail(fmt.Errorf("ghost set needs gfa(obj, \"name\", index) = expr or gf(obj, \"name\") = expr"))
						}
						cl.Kind, cl.Target = "ghostset", &call
					}
					cur.Clauses = append(cur.Clauses, cl)
					break
				}
				parts := strings.SplitN(body, "=", 2)
				if len(parts) != 2 {
					return fail(fmt.Errorf("bad ghost"))
				}
				e, err := parseExpr(parts[1])
				if err != nil {
					return fail(err)
				}
				cur.Ghosts = append(cur.Ghosts, Clause{Kind: "ghost", Name: strings.TrimSpace(parts[0]), E: e, Text: body})
			case "requires", "ensures", "assert", "assume", "cover":
				cl := Clause{Kind: kw, Text: body}
				b := body
				if kw == "assert" && strings.HasPrefix(b, "atcall ") {
					// assert atcall `call text prefix` [name] expr : checked before every call whose source text starts with the prefix
					at, rest, ok := anchorText(b[7:])
					if !ok {
						return fail(fmt.Errorf("bad anchor"))
					}
					cl.Kind, cl.At, b = "assertcall", strings.Join(strings.Fields(at), ""), rest
					cl.AtOrd = 0 // 0 = every matching call; #k = only the k-th matching call site in source order
					if strings.HasPrefix(b, "#") {
						fmt.Sscanf(b, "#%d", &cl.AtOrd)
						b = strings.TrimSpace(b[strings.IndexAny(b, " \t"):])
					}
				} else if kw == "assert" || kw == "assume" || kw == "cover" {
					// assert at "source line text"[#k] [name] expr
					if !strings.HasPrefix(b, "at ") {
						return fail(fmt.Errorf("%s needs an anchor: %s at \"line text\" expr", kw, kw))
					}
					at, rest, ok := anchorText(b[3:])
					if !ok {
						return fail(fmt.Errorf("bad anchor"))
					}
					cl.At, b = at, rest
					cl.AtOrd = 1
					if strings.HasPrefix(b, "#") {
						fmt.Sscanf(b, "#%d", &cl.AtOrd)
						b = strings.TrimSpace(b[strings.IndexAny(b, " \t"):])
					}
				}
				// optional label and tags:  ensures [name C05 C09] expr
				if strings.HasPrefix(b, "[") {
					end := strings.Index(b, "]")
					if end < 0 {
						return fail(fmt.Errorf("bad label"))
					}
					for j, x := range strings.Fields(b[1:end]) {
						if j == 0 {
							cl.Name = x
						} else {
							cl.Tags = append(cl.Tags, x)
						}
					}
					b = b[end+1:]
				}
				if kw == "ensures" && strings.HasPrefix(strings.TrimSpace(b), "at every return ") {
					// ensures [name] at every return expr : checked at every return statement, may mention the
					// locals in scope there (a return before the declaration of such a local is skipped)
					cl.At, b = "*", strings.TrimSpace(strings.TrimSpace(b)[len("at every return "):])
				} else if kw == "ensures" && (strings.HasPrefix(strings.TrimSpace(b), "at \"") || strings.HasPrefix(strings.TrimSpace(b), "at `")) {
					// ensures [name] at "return statement text" expr : only checked at that return
					at, rest, ok := anchorText(strings.TrimSpace(b)[3:])
					if !ok {
						return fail(fmt.Errorf("bad anchor"))
					}
					cl.At, b = at, rest
					if strings.HasPrefix(b, "#") {
						fmt.Sscanf(b, "#%d", &cl.AtOrd)
						b = strings.TrimSpace(b[strings.IndexAny(b, " \t"):])
					}
				}
				e, err := parseExpr(b)
				if err != nil {
					return fail(err)
				}
				cl.E = e
				cur.Clauses = append(cur.Clauses, cl)
			case "loop":
				// loop K invariant E | loop K decreases E [assuming X]
				if len(w) < 4 {
					return fail(fmt.Errorf("bad loop clause"))
				}
				k, err := strconv.Atoi(w[1])
				if err != nil {
					return fail(err)
				}
				kind := w[2]
				if kind != "invariant" && kind != "decreases" && kind != "unfold" && kind != "step" {
					return fail(fmt.Errorf("bad loop clause kind %q", kind))
				}
				idx := strings.Index(rc.text, kind) + len(kind)
				b := rc.text[idx:]
				cl := Clause{Kind: kind, Loop: k}
				if j := strings.Index(b, " assuming "); j >= 0 {
					cl.Only = strings.TrimSpace(b[j+len(" assuming "):])
					b = b[:j]
				}
				b = strings.TrimSpace(b)
				if strings.HasPrefix(b, "[") {
					end := strings.Index(b, "]")
					for j, x := range strings.Fields(b[1:end]) {
						if j == 0 {
							cl.Name = x
						} else {
							cl.Tags = append(cl.Tags, x)
						}
					}
					b = b[end+1:]
				}
				cl.Text = b
				e, err := parseExpr(b)
				if err != nil {
					return fail(err)
				}
				cl.E = e
				cur.Clauses = append(cur.Clauses, cl)
			default:
				return fail(fmt.Errorf("unknown clause %q", kw))
			}
		}
	}
	return nil
}

func constEval(e Expr, consts map[string]string) (string, bool) {
	switch e := e.(type) {
	case ENum:
		return e.V, true
	case EIdent:
		v, ok := consts[e.Name]
		return v, ok
	case EUn:
		if e.Op == "-" {
			v, ok := constEval(e.X, consts)
			if !ok {
				return "", false
			}
			if strings.HasPrefix(v, "-") {
				return v[1:], true
			}
			return "-" + v, true
		}
	}
	return "", false
}
