package main

// Counterexample extraction and replay against the real code.

import (
	"context"
	"encoding/json"
	"flag"
	"fmt"
	"go/types"
	"os"
	"os/exec"
	"path/filepath"
	"strconv"
	"strings"
	"time"
)

// getValues asks a solver for the values of the given terms in a model of the
// negated obligation.
func (r *Report) getValues(ob *Obligation, terms []string, extra ...string) (map[string]string, string) {
	if len(terms) == 0 {
		return map[string]string{}, ""
	}
	q := ob.query(r.prelude, false, true)
	if len(extra) > 0 {
		q = strings.Replace(q, "(check-sat)\n", "(assert "+and(extra...)+")\n(check-sat)\n", 1)
	}
	q += "(get-value (" + strings.Join(terms, " ") + "))\n"
	for _, sp := range []solverSpec{solvers[0], solvers[1]} {
		res := runSolver(context.Background(), sp, r.tmp, q, 10)
		if res.status != "sat" {
			continue
		}
		body := res.output[strings.Index(res.output, "\n")+1:]
		vals := parseGetValue(body, terms)
		if vals != nil {
			return vals, res.output
		}
	}
	return nil, ""
}

// parseGetValue parses "((t v) (t v) ...)" positionally against terms.
func parseGetValue(s string, terms []string) map[string]string {
	sx, _, ok := parseSexp(s, 0)
	if !ok {
		return nil
	}
	lst, ok := sx.([]any)
	if !ok || len(lst) != len(terms) {
		return nil
	}
	out := map[string]string{}
	for i, pair := range lst {
		p, ok := pair.([]any)
		if !ok || len(p) != 2 {
			return nil
		}
		out[terms[i]] = sexpNum(p[1])
	}
	return out
}

func parseSexp(s string, i int) (any, int, bool) {
	for i < len(s) && (s[i] == ' ' || s[i] == '\n' || s[i] == '\t' || s[i] == '\r') {
		i++
	}
	if i >= len(s) {
		return nil, i, false
	}
	if s[i] == '(' {
		i++
		var lst []any
		for {
			for i < len(s) && (s[i] == ' ' || s[i] == '\n' || s[i] == '\t' || s[i] == '\r') {
				i++
			}
			if i >= len(s) {
				return nil, i, false
			}
			if s[i] == ')' {
				return lst, i + 1, true
			}
			x, j, ok := parseSexp(s, i)
			if !ok {
				return nil, j, false
			}
			lst = append(lst, x)
			i = j
		}
	}
	j := i
	for j < len(s) && !strings.ContainsRune(" \n\t\r()", rune(s[j])) {
		j++
	}
	return s[i:j], j, true
}

// sexpNum renders a numeric/bool model value as plain text ("-5", "true").
func sexpNum(x any) string {
	switch x := x.(type) {
	case string:
		return x
	case []any:
		if len(x) == 2 && x[0] == "-" {
			return "-" + sexpNum(x[1])
		}
		if len(x) == 3 && x[0] == "/" {
			return sexpNum(x[1]) + "/" + sexpNum(x[2])
		}
	}
	return fmt.Sprint(x)
}

type replayInput struct {
	Name string `json:"name"`
	Type string `json:"type"`
	Go   string `json:"go"` // Go expression building the value
	Ptr  bool   `json:"ptr,omitempty"`
}

type structField struct {
	name string
	val  Val
}

// structFields lists the scalar and string fields of the struct a pointer parameter points to, read from the entry heap.
func (r *Report) structFields(c *FnCtx, p VPtr) ([]structField, bool) {
	st, ok := p.T.Underlying().(*types.Struct)
	if !ok || p.Root != rootObj || len(p.Path) != 0 {
		return nil, false
	}
	var out []structField
	for i := 0; i < st.NumFields(); i++ {
		f := st.Field(i)
		switch u := f.Type().Underlying().(type) {
		case *types.Basic:
			if u.Info()&(types.IsInteger|types.IsBoolean|types.IsString) == 0 {
				continue
			}
			np := p
			np.Path = []int{i}
			out = append(out, structField{f.Name(), c.loadQuiet(c.entry, np)})
		}
	}
	return out, true
}

// buildInputs turns the model of the entry state into Go expressions.
func (r *Report) buildInputs(ob *Obligation) ([]replayInput, map[string]string, string, bool) {
	c := ob.fn
	// first look for a counterexample in which every loop is in its first
	// iteration (then the entry state leads straight to the failure)
	if len(c.firstIter) > 0 {
		if ins, imps, out, ok := r.buildInputsWith(ob, c.firstIter); ok {
			return ins, imps, out, true
		}
	}
	return r.buildInputsWith(ob, nil)
}

func isReaderType(t types.Type) bool {
	return types.TypeString(t, nil) == "io.Reader"
}

func (r *Report) buildInputsWith(ob *Obligation, base []string) ([]replayInput, map[string]string, string, bool) {
	c := ob.fn
	fn := c.fn
	imports := map[string]string{}
	qual := func(p *types.Package) string {
		if p.Path() == "larking.io/larking" {
			return ""
		}
		imports[p.Path()] = p.Name()
		return p.Name()
	}
	// pass 1: scalars
	var terms []string
	hasReader := false
	for _, p := range fn.Params {
		v := c.vals[p]
		switch v := v.(type) {
		case VInt:
			terms = append(terms, v.T)
		case VBool:
			terms = append(terms, v.T)
		case VStr:
			terms = append(terms, v.Len)
		case VSlice:
			terms = append(terms, v.Len, v.Cap, v.Base, v.Off)
		case VIface:
			if isReaderType(p.Type()) {
				hasReader = true
			}
		case VStruct:
			continue // struct parameters are replayed as their zero value
		case VPtr:
			fields, ok := r.structFields(c, v)
			if !ok {
				return nil, nil, "", false
			}
			for _, f := range fields {
				switch fv := f.val.(type) {
				case VInt:
					terms = append(terms, fv.T)
				case VBool:
					terms = append(terms, fv.T)
				case VStr:
					terms = append(terms, fv.Len, fv.Off)
				}
			}
		default:
			return nil, nil, "", false
		}
	}
	var events []rdEvent
	if hasReader {
		for _, ev := range c.rdEvents {
			events = append(events, ev)
			terms = append(terms, ev.reach, ev.n, ev.errTyp, ev.errPay, ev.pos)
		}
	}
	// prefer small inputs: bound the lengths first
	var lens []string
	for _, p := range fn.Params {
		switch v := c.vals[p].(type) {
		case VStr:
			lens = append(lens, v.Len)
		case VSlice:
			lens = append(lens, v.Cap)
		}
	}
	for _, ev := range events {
		lens = append(lens, ev.n)
	}
	var vals map[string]string
	var out1 string
	for _, lim := range []int{6, 24, 128, 0} {
		bound := append([]string{}, base...)
		if lim > 0 {
			if len(lens) == 0 {
				continue
			}
			for _, l := range lens {
				bound = append(bound, le(l, fmt.Sprint(lim)))
			}
		}
		vals, out1 = r.getValues(ob, terms, bound...)
		if vals != nil {
			break
		}
	}
	if vals == nil {
		return nil, nil, "", false
	}
	// pass 2: contents
	var cterms []string
	const maxLen = 4096
	for _, p := range fn.Params {
		switch v := c.vals[p].(type) {
		case VStr:
			n, _ := strconv.Atoi(vals[v.Len])
			if n > maxLen {
				return nil, nil, "", false
			}
			for k := 0; k < n; k++ {
				cterms = append(cterms, strAt(v, fmt.Sprint(k)))
			}
		case VSlice:
			n, _ := strconv.Atoi(vals[v.Len])
			if n > maxLen {
				return nil, nil, "", false
			}
			if !isByteSlice(p.Type()) {
				return nil, nil, "", false
			}
			m := c.heapGet(c.entry, "E$uint8", mapSort(2, sInt))
			for k := 0; k < n; k++ {
				cterms = append(cterms, sel(sel(m, v.Base), plus(v.Off, fmt.Sprint(k))))
			}
		case VPtr:
			fields, _ := r.structFields(c, v)
			for _, f := range fields {
				if fv, ok := f.val.(VStr); ok {
					n, _ := strconv.Atoi(vals[fv.Len])
					if n > maxLen {
						return nil, nil, "", false
					}
					for k := 0; k < n; k++ {
						cterms = append(cterms, strAt(fv, fmt.Sprint(k)))
					}
				}
			}
		}
	}
	for _, ev := range events {
		if vals[ev.reach] != "true" {
			continue
		}
		n, _ := strconv.Atoi(vals[ev.n])
		if n > maxLen {
			return nil, nil, "", false
		}
		for k := 0; k < n; k++ {
			cterms = append(cterms, sel(app("rdS", ev.id), plus(ev.pos, fmt.Sprint(k))))
		}
	}
	// pin the scalars found in pass 1 so that both passes describe one model
	pin := append([]string{}, base...)
	for _, t := range terms {
		v := vals[t]
		if v == "true" {
			pin = append(pin, t)
			continue
		}
		if v == "false" {
			pin = append(pin, not(t))
			continue
		}
		if strings.HasPrefix(v, "-") {
			v = "(- " + v[1:] + ")"
		}
		pin = append(pin, eq(t, v))
	}
	cvals, _ := r.getValues(ob, append(append([]string{}, terms...), cterms...), pin...)
	if cvals == nil {
		return nil, nil, "", false
	}
	vals = cvals
	var ins []replayInput
	for _, p := range fn.Params {
		ts := types.TypeString(p.Type(), qual)
		in := replayInput{Name: p.Name(), Type: ts}
		switch v := c.vals[p].(type) {
		case VInt:
			if !isInteger(p.Type()) {
				return nil, nil, "", false
			}
			in.Go = fmt.Sprintf("%s(%s)", ts, vals[v.T])
		case VBool:
			in.Go = vals[v.T]
		case VStr:
			n, _ := strconv.Atoi(vals[v.Len])
			bs := make([]byte, n)
			for k := 0; k < n; k++ {
				x, _ := strconv.Atoi(vals[strAt(v, fmt.Sprint(k))])
				bs[k] = byte(x)
			}
			in.Go = fmt.Sprintf("%s(%s)", ts, strconv.Quote(string(bs)))
		case VSlice:
			n, _ := strconv.Atoi(vals[v.Len])
			cp, _ := strconv.Atoi(vals[v.Cap])
			if cp > 1<<20 {
				return nil, nil, "", false
			}
			m := c.heapGet(c.entry, "E$uint8", mapSort(2, sInt))
			var elems []string
			for k := 0; k < n; k++ {
				elems = append(elems, vals[sel(sel(m, v.Base), plus(v.Off, fmt.Sprint(k)))])
			}
			in.Go = fmt.Sprintf("append(make([]byte, 0, %d), []byte{%s}...)", cp, strings.Join(elems, ","))
		case VStruct:
			in.Go = ts + "{}"
		case VPtr:
			fields, _ := r.structFields(c, v)
			var parts []string
			for _, f := range fields {
				switch fv := f.val.(type) {
				case VInt:
					parts = append(parts, fmt.Sprintf("%s: %s", f.name, vals[fv.T]))
				case VBool:
					parts = append(parts, fmt.Sprintf("%s: %s", f.name, vals[fv.T]))
				case VStr:
					n, _ := strconv.Atoi(vals[fv.Len])
					bs := make([]byte, n)
					for k := 0; k < n; k++ {
						x, _ := strconv.Atoi(vals[strAt(fv, fmt.Sprint(k))])
						bs[k] = byte(x)
					}
					parts = append(parts, fmt.Sprintf("%s: %s", f.name, strconv.Quote(string(bs))))
				}
			}
			in.Go = "&" + strings.TrimPrefix(ts, "*") + "{" + strings.Join(parts, ", ") + "}"
			in.Ptr = true
		case VIface:
			if !isReaderType(p.Type()) {
				in.Go = "nil" // other interface parameters are replayed as nil
				break
			}
			// scripted reader from the modelled Read calls on the model's path
			imports["io"] = "io"
			imports["errors"] = "errors"
			eof, _ := c.eng.namedConst(c, "io.EOF")
			ueof, _ := c.eng.namedConst(c, "io.ErrUnexpectedEOF")
			var steps []string
			for _, ev := range events {
				if vals[ev.reach] != "true" {
					continue
				}
				n, _ := strconv.Atoi(vals[ev.n])
				var elems []string
				for k := 0; k < n; k++ {
					elems = append(elems, vals[sel(app("rdS", ev.id), plus(ev.pos, fmt.Sprint(k)))])
				}
				errGo := "errors.New(\"verif: scripted reader error\")"
				switch {
				case vals[ev.errTyp] == "0":
					errGo = "nil"
				case eof != nil && vals[ev.errTyp] == eof.(VIface).Typ:
					errGo = "io.EOF"
				case ueof != nil && vals[ev.errTyp] == ueof.(VIface).Typ:
					errGo = "io.ErrUnexpectedEOF"
				}
				steps = append(steps, fmt.Sprintf("{data: []byte{%s}, err: %s}", strings.Join(elems, ","), errGo))
			}
			in.Go = fmt.Sprintf("io.Reader(&verifScriptReader{steps: []verifStep{%s}})", strings.Join(steps, ", "))
		}
		ins = append(ins, in)
	}
	return ins, imports, out1, true
}

func (r *Report) replay(prop string, ob *Obligation) replayResult {
	out := ob.Res.output
	if len(out) > 4000 {
		out = out[:4000]
	}
	extra := map[string]any{"text": ob.Text, "pos": ob.Pos.String(), "function": ob.Func, "solver": ob.Res.solver, "status": ob.Res.status}
	if r.o.noReplay {
		return replayResult{path: r.writeReplay(prop, ob.ID, extra, out)}
	}
	var ins []replayInput
	var imports map[string]string
	var modelOut string
	ok := false
	// A model replay observes a panic or the function's oracle. For a contract clause (post / ghost /
	// count / refines / frame) of a function without oracle neither is the failed clause: a panic from
	// an argument the model left nil would "confirm" something else. Those go to the witness.
	clauseKind := ob.Kind == "post" || ob.Kind == "ghost" || ob.Kind == "count" || ob.Kind == "refines" || ob.Kind == "frame"
	if clauseKind && ob.fn.fc.Oracle == "" {
		extra["replay_note"] = "contract clause of a function without an executable oracle: a solver model cannot be checked against the clause on the real code"
		return r.witness(prop, ob, extra, out)
	}
	if ob.Res.status == "sat" {
		ins, imports, modelOut, ok = r.buildInputs(ob)
	} else if len(ob.fn.firstIter) > 0 {
		// no model for the general query: look for one in which every loop is in its first iteration
		ins, imports, modelOut, ok = r.buildInputsWith(ob, ob.fn.firstIter)
	}
	if !ok {
		extra["replay_note"] = "no solver model could be turned into concrete arguments"
		return r.witness(prop, ob, extra, out)
	}
	src := r.replayTest(ob, ins, imports)
	extra["inputs"] = ins
	extra["test_source"] = src
	extra["model"] = modelOut
	confirmed, testOut := runReplayTest(r.o.repo, src)
	if clauseKind && !strings.Contains(testOut, "REPLAY-FAIL oracle") {
		confirmed = false // a panic is not the failed clause
	}
	extra["replay_output"] = testOut
	extra["confirmed_on_real_code"] = confirmed
	if !confirmed {
		return r.witness(prop, ob, extra, out)
	}
	return replayResult{path: r.writeReplay(prop, ob.ID, extra, out), confirmed: confirmed}
}

// witness runs the function's canned witness inputs (known-tricky cases checked
// against a reference oracle) on the real code when the solver gave no usable model.
func (r *Report) witness(prop string, ob *Obligation, extra map[string]any, out string) replayResult {
	w := ob.fn.fc.Witness
	for _, wf := range ob.fn.fc.WitnessFor {
		if strings.Contains(ob.ID, wf[0]) {
			w = wf[1]
		}
	}
	if w == "" {
		return replayResult{path: r.writeReplay(prop, ob.ID, extra, out)}
	}
	r.witMu.Lock()
	res, done := r.witCache[w]
	if !done {
		src := "package larking\n\nimport \"testing\"\n\nfunc TestVerifReplay(t *testing.T) {\n\t" + w + "()\n}\n"
		res.confirmed, res.out = runReplayTest(r.o.repo, src)
		res.src = src
		if r.witCache == nil {
			r.witCache = map[string]witnessRes{}
		}
		r.witCache[w] = res
	}
	r.witMu.Unlock()
	extra["witness"] = w
	extra["test_source"] = res.src
	extra["replay_output"] = res.out
	extra["confirmed_on_real_code"] = res.confirmed
	extra["replay_note"] = "the solver gave no replayable model; the function's witness inputs were run on the real code instead"
	return replayResult{path: r.writeReplay(prop, ob.ID, extra, out), confirmed: res.confirmed}
}

type witnessRes struct {
	confirmed bool
	out, src  string
}

func (r *Report) replayTest(ob *Obligation, ins []replayInput, imports map[string]string) string {
	c := ob.fn
	fn := c.fn
	var b strings.Builder
	b.WriteString("package larking\n\nimport (\n\t\"fmt\"\n\t\"testing\"\n")
	for p := range imports {
		if p != "fmt" && p != "testing" {
			fmt.Fprintf(&b, "\t%q\n", p)
		}
	}
	b.WriteString(")\n\n")
	for p, n := range imports {
		if p != "fmt" && p != "testing" {
			// keep every import used
			switch n {
			case "io":
				b.WriteString("var _ = io.EOF\n")
			case "errors":
				b.WriteString("var _ = errors.New\n")
			}
		}
	}
	b.WriteString("func TestVerifReplay(verifT *testing.T) {\n")
	b.WriteString("\tdefer func() {\n\t\tif r := recover(); r != nil {\n\t\t\tfmt.Printf(\"REPLAY-FAIL panic: %v\\n\", r)\n\t\t}\n\t}()\n")
	var names []string
	for _, in := range ins {
		fmt.Fprintf(&b, "\tvar %s %s = %s\n\t_ = %s\n", in.Name, in.Type, in.Go, in.Name)
		if in.Ptr {
			// entry value of the pointed-to struct, for oracles
			fmt.Fprintf(&b, "\t%s_old := *%s\n\t_ = %s_old\n", in.Name, in.Name, in.Name)
		}
		names = append(names, in.Name)
	}
	call := ""
	if fn.Signature.Recv() != nil {
		call = fmt.Sprintf("%s.%s(%s)", names[0], fn.Name(), strings.Join(names[1:], ", "))
	} else {
		call = fmt.Sprintf("%s(%s)", fn.Name(), strings.Join(names, ", "))
	}
	for i, p := range fn.Params {
		// variadic handled as plain slice
		_ = i
		_ = p
	}
	res := c.results
	if len(res) > 0 {
		// avoid clashing with parameter names
		rn := make([]string, len(res))
		for i, n := range res {
			rn[i] = n
			for _, pn := range names {
				if pn == n {
					rn[i] = n + "_out"
				}
			}
		}
		fmt.Fprintf(&b, "\t%s := %s\n", strings.Join(rn, ", "), call)
		for _, n := range rn {
			fmt.Fprintf(&b, "\tfmt.Printf(\"REPLAY-RESULT %s = %%#v\\n\", %s)\n", n, n)
		}
		if c.fc.Oracle != "" {
			fmt.Fprintf(&b, "\tif !(%s) {\n\t\tfmt.Println(\"REPLAY-FAIL oracle violated: %s\")\n\t}\n", c.fc.Oracle, strings.ReplaceAll(c.fc.Oracle, "\"", "'"))
		}
	} else {
		fmt.Fprintf(&b, "\t%s\n", call)
	}
	b.WriteString("}\n")
	return b.String()
}

// runReplayTest runs an in-package test through -overlay; nothing is written into the repo.
var helpersPath = "/verif/contracts/replay_helpers.go"

func runReplayTest(repo, src string) (bool, string) {
	dir, err := os.MkdirTemp("", "govc-replay")
	if err != nil {
		return false, err.Error()
	}
	defer os.RemoveAll(dir)
	testFile := filepath.Join(dir, "verif_replay_test.go")
	os.WriteFile(testFile, []byte(src), 0o644)
	repl := map[string]string{filepath.Join(repo, "larking", "zz_verif_replay_test.go"): testFile}
	if _, err := os.Stat(helpersPath); err == nil {
		repl[filepath.Join(repo, "larking", "zz_verif_helpers_test.go")] = helpersPath
	}
	ov := map[string]any{"Replace": repl}
	ovData, _ := json.Marshal(ov)
	ovFile := filepath.Join(dir, "overlay.json")
	os.WriteFile(ovFile, ovData, 0o644)
	ctx, cancel := context.WithTimeout(context.Background(), 180*time.Second)
	defer cancel()
	cmd := exec.CommandContext(ctx, "go", "test", "-overlay", ovFile, "-vet=off", "-timeout", "60s", "-count=1", "-run", "^TestVerifReplay$", "-v", "./larking")
	cmd.Dir = repo
	cmd.Env = append(os.Environ(), "GOFLAGS=-mod=mod", "GOPROXY=off", "GOSUMDB=off", "GOTOOLCHAIN=local")
	outb, _ := cmd.CombinedOutput()
	out := string(outb)
	if len(out) > 6000 {
		out = out[:6000]
	}
	return strings.Contains(out, "REPLAY-FAIL") || strings.Contains(out, "panic:"), out
}

func cmdReplay(args []string) int {
	fs := flag.NewFlagSet("replay", flag.ExitOnError)
	repo := fs.String("repo", "/repo", "repository root")
	fs.Parse(args)
	if fs.NArg() != 1 {
		fmt.Fprintln(os.Stderr, "usage: govc replay <file>")
		return 2
	}
	data, err := os.ReadFile(fs.Arg(0))
	if err != nil {
		fmt.Fprintln(os.Stderr, err)
		return 2
	}
	var m map[string]any
	if err := json.Unmarshal(data, &m); err != nil {
		fmt.Fprintln(os.Stderr, err)
		return 2
	}
	fmt.Printf("obligation: %v\nproperty:   %v\n", m["obligation"], m["property"])
	src, _ := m["test_source"].(string)
	if src == "" {
		fmt.Println("no concrete input recorded (no-failing-input-found); solver output:")
		fmt.Println(m["solver_output"])
		return 1
	}
	confirmed, out := runReplayTest(*repo, src)
	fmt.Println(out)
	if confirmed {
		fmt.Println("replay: failure reproduced on the real code")
		return 1
	}
	fmt.Println("replay: the recorded input does not fail on the current code")
	return 0
}
