package main

// Maps: a map value is a reference m; its contents live in the heap families
//   M$h.<maptype>  : m -> key id -> Bool    (key present)
//   M$v.<maptype>* : m -> key id -> value leaves
//   M$len          : m -> number of entries
// Key ids: integers and pointers are their own id; a string key is strid(arr, off, len),
// an uninterpreted function (two syntactically different strings may or may not be the
// same key: both possibilities are explored, which is sound for proofs). Maps with other
// key types stay abstract (lookups unconstrained). Every family starts with "M$", so a
// frame "modifies M$" and the loop-head havoc of loops that update a map cover them.

import (
	"fmt"
	"go/types"

	"golang.org/x/tools/go/ssa"
)

func mapTypeOf(t types.Type) *types.Map {
	m, _ := t.Underlying().(*types.Map)
	return m
}

func (c *FnCtx) mapKeyOK(mt *types.Map) bool {
	switch u := mt.Key().Underlying().(type) {
	case *types.Basic:
		return u.Info()&(types.IsInteger|types.IsString) != 0
	case *types.Pointer:
		return true
	}
	return false
}

func (c *FnCtx) keyID(k Val) string {
	switch k := k.(type) {
	case VStr:
		c.eng.needStrID = true
		return app("strid", k.Arr, k.Off, k.Len)
	case VInt:
		return k.T
	case VPtr:
		if k.Root == rootObj && len(k.Path) == 0 {
			return k.Ref
		}
	}
	panic(unsupported("map key %T", k))
}

func mapFamH(mt *types.Map) string { return "M$h." + typeName(mt) }
func mapFamV(mt *types.Map) string { return "M$v." + typeName(mt) }

func (c *FnCtx) mapHas(st *State, mt *types.Map, m, kid string) string {
	return selN(c.heapGet(st, mapFamH(mt), mapSort(2, sBool)), []string{m, kid})
}

func (c *FnCtx) mapVal(st *State, mt *types.Map, m, kid string) Val {
	v := c.valFromLeaves(mt.Elem(), mapFamV(mt), func(name, sort string) string {
		return selN(c.heapGet(st, name, mapSort(2, sort)), []string{m, kid})
	})
	return v
}

// mapValChecked also asserts the type invariant of the stored value (ranges, 0 <= len <= cap ...).
func (c *FnCtx) mapValNamed(st *State, mt *types.Map, m, kid, hint string) Val {
	v := c.mapVal(st, mt, m, kid)
	ts, ss := flatten(v), leafSorts(v)
	for i := range ts {
		ts[i] = c.define(hint, ss[i], ts[i])
	}
	v, _ = rebuild(v, ts)
	if sl, ok := v.(VSlice); ok {
		sl.Elem = mt.Elem().Underlying().(*types.Slice).Elem()
		v = sl
	}
	if p, ok := v.(VPtr); ok {
		if pt, ok := mt.Elem().Underlying().(*types.Pointer); ok {
			p.T = pt.Elem()
			v = p
		}
	}
	if inv := c.typeInv(st, v, mt.Elem()); inv != "true" {
		c.assert(inv)
	}
	return v
}

func (c *FnCtx) execMakeMap(st *State, in *ssa.MakeMap) Val {
	r := c.allocRef(st, "map")
	mt := mapTypeOf(in.Type())
	lens := c.heapGet(st, "M$len", arrSort(sInt))
	c.heapSet(st, "M$len", arrSort(sInt), sto(lens, r, "0"))
	if mt != nil && c.mapKeyOK(mt) {
		h := c.heapGet(st, mapFamH(mt), mapSort(2, sBool))
		c.heapSet(st, mapFamH(mt), mapSort(2, sBool), sto(h, r, "((as const (Array Int Bool)) false)"))
	} else {
		c.note("map with an unmodelled key type is abstracted (%s)", c.eng.prog.Fset.Position(in.Pos()))
	}
	return VInt{r}
}

func (c *FnCtx) execMapUpdate(st *State, in *ssa.MapUpdate) {
	mt := mapTypeOf(in.Map.Type())
	m, ok := c.val(st, in.Map).(VInt)
	if mt == nil || !ok || !c.mapKeyOK(mt) {
		c.havocHeap(st, "M$")
		return
	}
	c.oblige(st, "nil", c.anchor(in), in.Pos(), not(eq(m.T, "0")), "assignment to an entry of a nil map panics: the map is not nil", nil)
	c.assume(st, not(eq(m.T, "0")))
	c.obligeFresh(st, mapFamH(mt), m.T, in)
	kid := c.define("kid", sInt, c.keyID(c.val(st, in.Key)))
	has := c.mapHas(st, mt, m.T, kid)
	lens := c.heapGet(st, "M$len", arrSort(sInt))
	c.heapSet(st, "M$len", arrSort(sInt), sto(lens, m.T, plus(sel(lens, m.T), ite(has, "0", "1"))))
	hs := c.heapGet(st, mapFamH(mt), mapSort(2, sBool))
	c.heapSet(st, mapFamH(mt), mapSort(2, sBool), stoN(hs, []string{m.T, kid}, "true"))
	c.valToLeaves(c.val(st, in.Value), mt.Elem(), mapFamV(mt), func(name, sort, term string) {
		ms := mapSort(2, sort)
		c.heapSet(st, name, ms, stoN(c.heapGet(st, name, ms), []string{m.T, kid}, term))
	})
}

func (c *FnCtx) execMapDelete(st *State, mt *types.Map, mv, k Val) {
	m, ok := mv.(VInt)
	if mt == nil || !ok || !c.mapKeyOK(mt) {
		c.havocHeap(st, "M$")
		return
	}
	kid := c.define("kid", sInt, c.keyID(k))
	has := c.mapHas(st, mt, m.T, kid)
	lens := c.heapGet(st, "M$len", arrSort(sInt))
	c.heapSet(st, "M$len", arrSort(sInt), sto(lens, m.T, minus(sel(lens, m.T), ite(and(has, not(eq(m.T, "0"))), "1", "0"))))
	hs := c.heapGet(st, mapFamH(mt), mapSort(2, sBool))
	c.heapSet(st, mapFamH(mt), mapSort(2, sBool), stoN(hs, []string{m.T, kid}, "false"))
}

func (c *FnCtx) mapLookup(st *State, in *ssa.Lookup) Val {
	t := in.Type()
	mt := mapTypeOf(in.X.Type())
	m, isRef := c.val(st, in.X).(VInt)
	if mt == nil || !isRef || !c.mapKeyOK(mt) {
		c.abstracted["map lookup on an unmodelled key type (result unconstrained)"]++
		if in.CommaOk {
			tt := t.(*types.Tuple)
			ok := c.declare("mapok", sBool)
			v := c.freshVal(st, tt.At(0).Type(), "mapval")
			z := c.zeroVal(tt.At(0).Type())
			fv, fz := flatten(v), flatten(z)
			for i := range fv {
				c.assert(implies(not(ok), eq(fv[i], fz[i])))
			}
			return VTuple{E: []Val{v, VBool{ok}}}
		}
		return c.freshVal(st, t, "mapval")
	}
	kid := c.define("kid", sInt, c.keyID(c.val(st, in.Index)))
	has := c.define("maphas", sBool, and(not(eq(m.T, "0")), c.mapHas(st, mt, m.T, kid)))
	stored := c.mapValNamed(st, mt, m.T, kid, "mapval")
	zero := c.zeroVal(mt.Elem())
	v := iteVal(has, stored, zero)
	if in.CommaOk {
		return VTuple{E: []Val{v, VBool{has}}}
	}
	return v
}

// mapNext: the (key, value) delivered by one step of ranging over map m.
func (c *FnCtx) mapNext(st *State, mt *types.Map, m string, okT string, key Val) (kid string, val Val) {
	if key != nil {
		kid = c.define("kid", sInt, c.keyID(key))
	} else {
		kid = c.declare("kid", sInt)
	}
	c.assume(st, implies(okT, and(not(eq(m, "0")), c.mapHas(st, mt, m, kid))))
	return kid, c.mapValNamed(st, mt, m, kid, "next.val")
}

var _ = fmt.Sprint
