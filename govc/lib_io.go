package main

// Assumed contracts: io.Reader / io.Writer / io.ReadFull, protowire varints,
// strings.Builder, strconv, fmt.Sprintf("%%%02x").

import (
	"fmt"
	"go/types"

	"golang.org/x/tools/go/ssa"
)

func (c *FnCtx) ioEOF() VIface {
	v, ok := c.eng.namedConst(c, "io.EOF")
	if !ok {
		panic(unsupported("io.EOF not found"))
	}
	return v.(VIface)
}

// foreignErr: errors produced by readers/writers are nil, sentinel values or of
// types not constructed by larking itself (assumption, listed with the Read/Write contracts).
func foreignErr(e VIface) string { return or(eq(e.Typ, "0"), lt("800000", e.Typ)) }

func ifaceEq(a, b VIface) string { return and(eq(a.Typ, b.Typ), eq(a.Pay, b.Pay)) }

// readInto models delivering n stream bytes of reader id into p[0:n].
func (c *FnCtx) readInto(st *State, id string, p VSlice, n string, err VIface) {
	posMap := c.heapGet(st, "G$rd.pos", arrSort(sInt))
	pos := c.define("rd.pos", sInt, sel(posMap, id))
	c.rdEvents = append(c.rdEvents, rdEvent{reach: st.reach, id: id, n: n, errTyp: err.Typ, errPay: err.Pay, pos: pos})
	c.assert(le("0", pos))
	ms := mapSort(2, sInt)
	E := c.heapGet(st, "E$uint8", ms)
	k := c.fresh("k")
	arr := c.lambda("rd", sInt, k, ite(and(le(p.Off, k), lt(k, plus(p.Off, n))),
		sel(app("rdS", id), plus(pos, minus(k, p.Off))), sel(sel(E, p.Base), k)))
	c.heapSet(st, "E$uint8", ms, sto(E, p.Base, arr))
	c.heapSet(st, "G$rd.pos", arrSort(sInt), sto(posMap, id, plus(pos, n)))
}

func registerIOModels() {
	libModels["(io.Reader).Read"] = &libModel{
		desc:   "Read(p) returns any 0 <= n <= len(p), possibly together with any error; p[0:n] receives the next n bytes of the reader's abstract stream rdS(r) at rdpos(r), which advances by n; nothing else changes. the error is never of a type larking constructs itself (e.g. *protodelim.SizeTooLargeError). Termination obligations additionally assume ReaderProgress: len(p) > 0 && err == nil ==> n > 0",
		writes: []string{"E$uint8", "G$rd.pos"},
		apply: func(c *FnCtx, st *State, in ssa.Instruction, cc *ssa.CallCommon, args []Val) Val {
			r := args[0].(VIface)
			p := args[1].(VSlice)
			id := c.define("rid", sInt, readerID(r))
			n := c.declare("rd.n", sInt)
			c.assume(st, and(le("0", n), le(n, p.Len)))
			err := c.freshVal(st, types.Universe.Lookup("error").Type(), "rd.err").(VIface)
			c.assert(foreignErr(err))
			c.readInto(st, id, p, n, err)
			c.assertOnly("ReaderProgress", implies(and(st.reach, lt("0", p.Len), eq(err.Typ, "0")), lt("0", n)))
			return VTuple{E: []Val{VInt{n}, err}}
		},
	}
	libModels["(*gzip.Reader).Read"] = &libModel{
		desc:   "(*gzip.Reader).Read(p) is an io.Reader.Read: 0 <= n <= len(p), possibly together with any error; writes p[0:n] and the reader's own state only (no field of a larking struct)",
		writes: []string{"E$uint8", "G$rd.pos"},
		apply: func(c *FnCtx, st *State, in ssa.Instruction, cc *ssa.CallCommon, args []Val) Val {
			p := args[1].(VSlice)
			id := c.define("rid", sInt, readerID(args[0]))
			n := c.declare("rd.n", sInt)
			c.assume(st, and(le("0", n), le(n, p.Len)))
			err := c.freshVal(st, types.Universe.Lookup("error").Type(), "rd.err").(VIface)
			c.assert(foreignErr(err))
			c.readInto(st, id, p, n, err)
			return VTuple{E: []Val{VInt{n}, err}}
		},
	}
	libModels["metadata.Join"] = &libModel{
		desc: "metadata.Join(mds...) returns a newly made MD (never one of its arguments); its contents are unconstrained; the arguments are not modified",
		apply: func(c *FnCtx, st *State, in ssa.Instruction, cc *ssa.CallCommon, args []Val) Val {
			return VInt{c.allocRef(st, "md")}
		},
	}
	libModels["io.ReadFull"] = &libModel{
		desc:   "ReadFull(r, buf) returns 0 <= n <= len(buf); err == nil <=> n == len(buf); err == io.EOF ==> n == 0; n > 0 && err != nil ==> err != io.EOF; buf[0:n] receives the next n stream bytes and rdpos(r) advances by n",
		writes: []string{"E$uint8", "G$rd.pos"},
		apply: func(c *FnCtx, st *State, in ssa.Instruction, cc *ssa.CallCommon, args []Val) Val {
			r := args[0].(VIface)
			p := args[1].(VSlice)
			c.oblige(st, "nil", c.anchor(in), in.Pos(), not(eq(r.Typ, "0")), "reader passed to io.ReadFull is not nil", nil)
			id := c.define("rid", sInt, readerID(r))
			n := c.declare("rf.n", sInt)
			c.assume(st, and(le("0", n), le(n, p.Len)))
			err := c.freshVal(st, types.Universe.Lookup("error").Type(), "rf.err").(VIface)
			c.assert(foreignErr(err))
			eof := c.ioEOF()
			c.assume(st, eq(eq(err.Typ, "0"), eq(n, p.Len)))
			c.assume(st, implies(ifaceEq(err, eof), eq(n, "0")))
			c.readInto(st, id, p, n, err)
			return VTuple{E: []Val{VInt{n}, err}}
		},
	}
	libModels["(io.Writer).Write"] = &libModel{
		desc:   "Write(p) returns 0 <= n <= len(p) and n < len(p) ==> err != nil; the writer's ghost output wrout(w) is extended by p[0:n] (wrlen(w) advances by n, wrcalls(w) by 1); p is not modified",
		writes: []string{"G$wr."},
		apply: func(c *FnCtx, st *State, in ssa.Instruction, cc *ssa.CallCommon, args []Val) Val {
			w := args[0].(VIface)
			p := args[1].(VSlice)
			id := c.define("wid", sInt, readerID(w))
			n := c.declare("wr.n", sInt)
			c.assume(st, and(le("0", n), le(n, p.Len)))
			err := c.freshVal(st, types.Universe.Lookup("error").Type(), "wr.err").(VIface)
			c.assert(foreignErr(err))
			c.assume(st, implies(lt(n, p.Len), not(eq(err.Typ, "0"))))
			lenMap := c.heapGet(st, "G$wr.len", arrSort(sInt))
			outMap := c.heapGet(st, "G$wr.out", arrSort(sAI))
			l := c.define("wr.len", sInt, sel(lenMap, id))
			c.assert(le("0", l))
			E := c.heapGet(st, "E$uint8", mapSort(2, sInt))
			k := c.fresh("k")
			arr := c.lambda("wr", sInt, k, ite(and(le(l, k), lt(k, plus(l, n))),
				sel(sel(E, p.Base), plus(p.Off, minus(k, l))), sel(sel(outMap, id), k)))
			c.heapSet(st, "G$wr.out", arrSort(sAI), sto(outMap, id, arr))
			c.heapSet(st, "G$wr.len", arrSort(sInt), sto(lenMap, id, plus(l, n)))
			callsMap := c.heapGet(st, "G$wr.calls", arrSort(sInt))
			c.heapSet(st, "G$wr.calls", arrSort(sInt), sto(callsMap, id, plus(sel(callsMap, id), "1")))
			return VTuple{E: []Val{VInt{n}, err}}
		},
	}
	libModels["protowire.ConsumeVarint"] = &libModel{
		desc: "ConsumeVarint(b): with j the first index < min(len(b),10) whose byte is < 0x80: returns (varintval(b, j+1), j+1), except j == 9 with b[9] > 1 which returns (0, -3); if there is no such index returns (0, -1) when len(b) < 10 and (0, -3) otherwise. varintval is the little-endian base-128 value",
		apply: func(c *FnCtx, st *State, in ssa.Instruction, cc *ssa.CallCommon, args []Val) Val {
			b := args[0].(VSlice)
			E := c.heapGet(st, "E$uint8", mapSort(2, sInt))
			arr := c.define("cv.arr", sAI, sel(E, b.Base))
			at := func(j int) string { return sel(arr, plus(b.Off, fmt.Sprint(j))) }
			c.eng.needVarint = true
			v := c.declare("cv.v", sInt)
			n := c.declare("cv.n", sInt)
			// cases
			allCont := "true" // all bytes before j are continuation bytes and exist
			var cases []string
			for j := 0; j < 10; j++ {
				here := and(allCont, lt(fmt.Sprint(j), b.Len), lt(at(j), "128"))
				val := app("varintval", arr, b.Off, fmt.Sprint(j+1))
				if j < 9 {
					cases = append(cases, implies(here, and(eq(n, fmt.Sprint(j+1)), eq(v, val))))
				} else {
					cases = append(cases, implies(and(allCont, lt("9", b.Len), lt(at(9), "2")), and(eq(n, "10"), eq(v, val))))
					cases = append(cases, implies(and(allCont, lt("9", b.Len), le("2", at(9))), and(eq(n, num(-3)), eq(v, "0"))))
				}
				// ran out of bytes at j
				cases = append(cases, implies(and(allCont, le(b.Len, fmt.Sprint(j))), and(eq(n, num(-1)), eq(v, "0"))))
				allCont = and(allCont, lt(fmt.Sprint(j), b.Len), le("128", at(j)))
			}
			c.assume(st, and(cases...))
			c.assume(st, and(le("0", v), lt(v, pow2[64])))
			c.assume(st, or(eq(n, num(-1)), eq(n, num(-3)), and(le("1", n), le(n, "10"))))
			return VTuple{E: []Val{VInt{v}, VInt{n}}}
		},
	}
	libModels["protowire.AppendVarint"] = &libModel{
		desc:   "AppendVarint(b, v) appends h bytes (1 <= h <= 10) forming a well-formed varint (first h-1 bytes >= 0x80, last < 0x80, tenth byte <= 1) with varintval == v (the ConsumeVarint/AppendVarint round trip)",
		writes: []string{"E$uint8"},
		apply: func(c *FnCtx, st *State, in ssa.Instruction, cc *ssa.CallCommon, args []Val) Val {
			b := args[0].(VSlice)
			v := args[1].(VInt).T
			c.eng.needVarint = true
			h := c.declare("av.h", sInt)
			c.assume(st, and(le("1", h), le(h, "10")))
			enc := c.declare("av.bytes", sAI)
			var facts []string
			for j := 0; j < 10; j++ {
				bj := sel(enc, fmt.Sprint(j))
				facts = append(facts, implies(lt(fmt.Sprint(j), h), and(le("0", bj), le(bj, "255"))))
				facts = append(facts, implies(lt(fmt.Sprint(j), minus(h, "1")), le("128", bj)))
				facts = append(facts, implies(eq(fmt.Sprint(j), minus(h, "1")), lt(bj, "128")))
			}
			facts = append(facts, implies(eq(h, "10"), le(sel(enc, "9"), "1")))
			facts = append(facts, eq(app("varintval", enc, "0", h), v))
			// a single byte encodes exactly the values below 128
			facts = append(facts, eq(eq(h, "1"), lt(v, "128")))
			c.assume(st, and(facts...))
			return c.execAppend(st, in, b, VStr{enc, "0", h})
		},
	}
	libModels["(*strings.Builder).WriteString"] = &libModel{
		desc:   "WriteString(s) appends s to the builder's ghost content sbstr(b); returns (len(s), nil)",
		writes: []string{"G$sb."},
		apply: func(c *FnCtx, st *State, in ssa.Instruction, cc *ssa.CallCommon, args []Val) Val {
			id := c.ptrOf(args[0]).Ref
			s := args[1].(VStr)
			lenMap := c.heapGet(st, "G$sb.len", arrSort(sInt))
			arrMap := c.heapGet(st, "G$sb.arr", arrSort(sAI))
			l := c.define("sb.len", sInt, sel(lenMap, id))
			k := c.fresh("k")
			arr := c.lambda("sb", sInt, k, ite(and(le(l, k), lt(k, plus(l, s.Len))), strAt(s, minus(k, l)), sel(sel(arrMap, id), k)))
			c.heapSet(st, "G$sb.arr", arrSort(sAI), sto(arrMap, id, arr))
			c.heapSet(st, "G$sb.len", arrSort(sInt), sto(lenMap, id, plus(l, s.Len)))
			return VTuple{E: []Val{VInt{s.Len}, VIface{"0", "0"}}}
		},
	}
	libModels["(*strings.Builder).String"] = &libModel{
		desc: "String() returns the builder's ghost content",
		apply: func(c *FnCtx, st *State, in ssa.Instruction, cc *ssa.CallCommon, args []Val) Val {
			id := c.ptrOf(args[0]).Ref
			lenMap := c.heapGet(st, "G$sb.len", arrSort(sInt))
			arrMap := c.heapGet(st, "G$sb.arr", arrSort(sAI))
			return VStr{c.define("sb.str", sAI, sel(arrMap, id)), "0", c.define("sb.n", sInt, sel(lenMap, id))}
		},
	}
	parse := func(signed bool) func(c *FnCtx, st *State, in ssa.Instruction, cc *ssa.CallCommon, args []Val) Val {
		return func(c *FnCtx, st *State, in ssa.Instruction, cc *ssa.CallCommon, args []Val) Val {
			s := args[0].(VStr)
			base, bits := args[1].(VInt).T, args[2].(VInt).T
			resT := cc.Signature().Results().At(0).Type()
			v := c.freshVal(st, resT, "parse.v").(VInt)
			err := c.freshVal(st, types.Universe.Lookup("error").Type(), "parse.err").(VIface)
			if base != "10" || bits != "64" {
				c.note("strconv.Parse* with base %s / bitSize %s is abstracted", base, bits)
				return VTuple{E: []Val{v, err}}
			}
			c.eng.needDecval = true
			hasSign := "false"
			neg := "false"
			if signed {
				hasSign = c.define("parse.sign", sBool, and(lt("0", s.Len), or(eq(strAt(s, "0"), "43"), eq(strAt(s, "0"), "45"))))
				neg = and(hasSign, eq(strAt(s, "0"), "45"))
			}
			doff := c.define("parse.doff", sInt, plus(s.Off, ite(hasSign, "1", "0")))
			nd := c.define("parse.nd", sInt, minus(s.Len, ite(hasSign, "1", "0")))
			k := c.fresh("k")
			allDigits := fmt.Sprintf("(forall ((%s Int)) (=> (and (<= 0 %s) (< %s %s)) (and (<= 48 (select %s (+ %s %s))) (<= (select %s (+ %s %s)) 57))))",
				k, k, k, nd, s.Arr, doff, k, s.Arr, doff, k)
			syntaxOK := c.define("parse.ok", sBool, and(le("1", nd), allDigits))
			c.assume(st, implies(eq(err.Typ, "0"), syntaxOK))
			mag := app("decval", s.Arr, doff, nd)
			c.assume(st, implies(and(syntaxOK, le(nd, "18")), and(eq(err.Typ, "0"), eq(v.T, ite(neg, app("-", mag), mag)))))
			return VTuple{E: []Val{v, err}}
		}
	}
	libModels["strconv.ParseInt"] = &libModel{
		desc:  "ParseInt(s, 10, 64): err == nil ==> s is [+-]?[0-9]+; if s has that shape with at most 18 digits then err == nil and the value is the signed decimal value (decval)",
		apply: parse(true),
	}
	libModels["strconv.ParseUint"] = &libModel{
		desc:  "ParseUint(s, 10, 64): err == nil ==> s is [0-9]+; if s has that shape with at most 18 digits then err == nil and the value is its decimal value (decval)",
		apply: parse(false),
	}
	libModels["(*sync.Pool).Get"] = &libModel{
		desc: "pool exclusivity: Get on bytesPool / bufPool returns a non-nil *[]byte / *bytes.Buffer that no other live value aliases (the pooled slice has arbitrary length and capacity over its own backing array, the buffer arbitrary content); establishing this is the pool-discipline half of C13 and is assumed",
		apply: func(c *FnCtx, st *State, in ssa.Instruction, cc *ssa.CallCommon, args []Val) Val {
			g, _ := cc.Args[0].(*ssa.Global)
			if g == nil {
				c.abstracted["(*sync.Pool).Get on an unknown pool"]++
				return c.freshVal(st, cc.Signature().Results().At(0).Type(), "pool")
			}
			switch g.Name() {
			case "bytesPool":
				bt := types.NewSlice(types.Typ[types.Uint8])
				r := c.allocRef(st, "pooled")
				arr := c.allocRef(st, "pooledarr")
				l := c.declare("pool.len", sInt)
				cp := c.declare("pool.cap", sInt)
				c.assert(and(le("0", l), le(l, cp), le(cp, "4611686018427387904")))
				p := VPtr{Root: rootObj, Ref: r, T: bt}
				c.store(st, p, VSlice{arr, "0", l, cp, types.Typ[types.Uint8], ""})
				return VIface{fmt.Sprint(c.eng.typeID(types.NewPointer(bt))), r}
			case "bufPool":
				r := c.allocRef(st, "pooledbuf")
				t := c.eng.lookupType("*bytes.Buffer")
				if t == nil {
					panic(unsupported("bytes.Buffer type not found"))
				}
				return VIface{fmt.Sprint(c.eng.typeID(t)), r}
			}
			c.abstracted["(*sync.Pool).Get on pool "+g.Name()]++
			return c.freshVal(st, cc.Signature().Results().At(0).Type(), "pool")
		},
	}
	libModels["(*bytes.Buffer).Reset"] = &libModel{
		desc:   "Reset empties the buffer (buflen == 0)",
		writes: []string{"G$buf."},
		apply: func(c *FnCtx, st *State, in ssa.Instruction, cc *ssa.CallCommon, args []Val) Val {
			id := c.ptrOf(args[0]).Ref
			m := c.heapGet(st, "G$buf.len", arrSort(sInt))
			c.heapSet(st, "G$buf.len", arrSort(sInt), sto(m, id, "0"))
			return VTuple{}
		},
	}
	libModels["(*bytes.Buffer).Len"] = &libModel{
		desc: "Len returns 0 <= buflen <= 2^62",
		apply: func(c *FnCtx, st *State, in ssa.Instruction, cc *ssa.CallCommon, args []Val) Val {
			id := c.ptrOf(args[0]).Ref
			n := c.define("buf.len", sInt, sel(c.heapGet(st, "G$buf.len", arrSort(sInt)), id))
			c.assert(and(le("0", n), le(n, "4611686018427387904")))
			return VInt{n}
		},
	}
	libModels["(*bytes.Buffer).Bytes"] = &libModel{
		desc: "Bytes returns a slice of length buflen (content not modelled)",
		apply: func(c *FnCtx, st *State, in ssa.Instruction, cc *ssa.CallCommon, args []Val) Val {
			id := c.ptrOf(args[0]).Ref
			n := sel(c.heapGet(st, "G$buf.len", arrSort(sInt)), id)
			v := c.freshVal(st, cc.Signature().Results().At(0).Type(), "buf.bytes").(VSlice)
			c.assume(st, eq(v.Len, n))
			return v
		},
	}
	libModels["(binary.bigEndian).Uint32"] = &libModel{
		desc: "BigEndian.Uint32(b) requires len(b) >= 4 and returns b[0]<<24 | b[1]<<16 | b[2]<<8 | b[3]",
		apply: func(c *FnCtx, st *State, in ssa.Instruction, cc *ssa.CallCommon, args []Val) Val {
			b := args[len(args)-1].(VSlice)
			c.oblige(st, "pre", "binary.BigEndian.Uint32:"+c.anchor(in), in.Pos(), le("4", b.Len), "BigEndian.Uint32 needs 4 bytes", nil)
			E := c.heapGet(st, "E$uint8", mapSort(2, sInt))
			at := func(k int) string { return sel(sel(E, b.Base), plus(b.Off, fmt.Sprint(k))) }
			v := c.define("be32", sInt, app("+", app("*", "16777216", at(0)), app("*", "65536", at(1)), app("*", "256", at(2)), at(3)))
			c.assert(and(le("0", v), le(v, "4294967295")))
			return VInt{v}
		},
	}
	libModels["(binary.bigEndian).PutUint32"] = &libModel{
		desc:   "BigEndian.PutUint32(b, v) requires len(b) >= 4 and stores the four big-endian bytes of v into b[0:4]",
		writes: []string{"E$uint8"},
		apply: func(c *FnCtx, st *State, in ssa.Instruction, cc *ssa.CallCommon, args []Val) Val {
			b := args[len(args)-2].(VSlice)
			v := args[len(args)-1].(VInt).T
			c.oblige(st, "pre", "binary.BigEndian.PutUint32:"+c.anchor(in), in.Pos(), le("4", b.Len), "BigEndian.PutUint32 needs 4 bytes", nil)
			ms := mapSort(2, sInt)
			E := c.heapGet(st, "E$uint8", ms)
			k := c.fresh("k")
			byteAt := func(sh string) string { return app("mod", app("div", v, sh), "256") }
			arr := c.lambda("put32", sInt, k, ite(eq(k, b.Off), byteAt("16777216"), ite(eq(k, plus(b.Off, "1")), byteAt("65536"),
				ite(eq(k, plus(b.Off, "2")), byteAt("256"), ite(eq(k, plus(b.Off, "3")), app("mod", v, "256"), sel(sel(E, b.Base), k))))))
			c.heapSet(st, "E$uint8", ms, sto(E, b.Base, arr))
			return VTuple{}
		},
	}
	hasFix := func(prefix bool) func(c *FnCtx, st *State, in ssa.Instruction, cc *ssa.CallCommon, args []Val) Val {
		return func(c *FnCtx, st *State, in ssa.Instruction, cc *ssa.CallCommon, args []Val) Val {
			s, p := args[0].(VStr), args[1].(VStr)
			k := c.fresh("q.k")
			start := "0"
			if !prefix {
				start = minus(s.Len, p.Len)
			}
			if lit, ok := c.eng.litOf[p.Arr]; ok && p.Off == "0" {
				parts := []string{le(fmt.Sprint(len(lit)), s.Len)}
				for i := 0; i < len(lit); i++ {
					parts = append(parts, eq(strAt(s, plus(start, fmt.Sprint(i))), fmt.Sprint(lit[i])))
				}
				return VBool{c.define("hasfix", sBool, and(parts...))}
			}
			body := fmt.Sprintf("(and (<= %s %s) (forall ((%s Int)) (=> (and (<= 0 %s) (< %s %s)) (= %s %s))))", p.Len, s.Len, k, k, k, p.Len, strAt(s, plus(start, k)), strAt(p, k))
			return VBool{c.define("hasfix", sBool, body)}
		}
	}
	libModels["strings.HasPrefix"] = &libModel{desc: "HasPrefix(s, p) <=> len(p) <= len(s) and s[:len(p)] == p", apply: hasFix(true)}
	libModels["strings.HasSuffix"] = &libModel{desc: "HasSuffix(s, p) <=> len(p) <= len(s) and s[len(s)-len(p):] == p", apply: hasFix(false)}
	trimFix := func(prefix bool) func(c *FnCtx, st *State, in ssa.Instruction, cc *ssa.CallCommon, args []Val) Val {
		return func(c *FnCtx, st *State, in ssa.Instruction, cc *ssa.CallCommon, args []Val) Val {
			s, p := args[0].(VStr), args[1].(VStr)
			has := hasFix(prefix)(c, st, in, cc, args).(VBool).T
			n := c.define("trimfix.len", sInt, ite(has, minus(s.Len, p.Len), s.Len))
			if prefix {
				return VStr{s.Arr, c.define("trimfix.off", sInt, ite(has, plus(s.Off, p.Len), s.Off)), n}
			}
			return VStr{s.Arr, s.Off, n}
		}
	}
	libModels["strings.TrimPrefix"] = &libModel{desc: "TrimPrefix(s, p) is s[len(p):] when HasPrefix(s, p) and s otherwise", apply: trimFix(true)}
	libModels["strings.TrimSuffix"] = &libModel{desc: "TrimSuffix(s, p) is s[:len(s)-len(p)] when HasSuffix(s, p) and s otherwise", apply: trimFix(false)}
	// protoreflect: descriptors are opaque objects (identity = interface payload); fdIsList / fdIsMap /
	// fdMsg are uninterpreted functions of that identity. A protoreflect.Value carries its kind in the
	// uninterpreted valkind(v): 1 message, 2 list, 3 map.
	fdID := func(v Val) string { return v.(VIface).Pay }
	valKind := func(v Val) string { return app("valkind", flatten(v)...) }
	for _, n := range []string{"ByName", "ByJSONName", "ByTextName", "ByNumber"} {
		libModels["(protoreflect.FieldDescriptors)."+n] = &libModel{desc: "a field descriptor found by " + n + " belongs to the collection it was looked up in (fdOwner(fd) is that collection); no heap effect",
			apply: func(c *FnCtx, st *State, in ssa.Instruction, cc *ssa.CallCommon, args []Val) Val {
				c.eng.needProto = true
				r := c.freshVal(st, cc.Signature().Results().At(0).Type(), "pb.fd").(VIface)
				c.assume(st, implies(not(eq(r.Typ, "0")), eq(app("fdOwner", r.Pay), fdID(args[0]))))
				return r
			}}
	}
	libModels["(protoreflect.FieldDescriptor).IsList"] = &libModel{desc: "IsList() is the uninterpreted fdIsList(fd)",
		apply: func(c *FnCtx, st *State, in ssa.Instruction, cc *ssa.CallCommon, args []Val) Val {
			c.eng.needProto = true
			return VBool{app("fdIsList", fdID(args[0]))}
		}}
	libModels["(protoreflect.FieldDescriptor).IsMap"] = &libModel{desc: "IsMap() is the uninterpreted fdIsMap(fd); a field is never both a list and a map",
		apply: func(c *FnCtx, st *State, in ssa.Instruction, cc *ssa.CallCommon, args []Val) Val {
			c.eng.needProto = true
			return VBool{app("fdIsMap", fdID(args[0]))}
		}}
	libModels["(protoreflect.FieldDescriptor).Message"] = &libModel{desc: "Message() returns the message descriptor fdMsg(fd), nil when the field is not of message kind (list-of-message and map fields have one)",
		apply: func(c *FnCtx, st *State, in ssa.Instruction, cc *ssa.CallCommon, args []Val) Val {
			c.eng.needProto = true
			m := app("fdMsg", fdID(args[0]))
			return VIface{ite(eq(m, "0"), "0", "700001"), m}
		}}
	libModels["(protoreflect.Message).Mutable"] = &libModel{desc: "Mutable(fd) returns a value whose kind follows the field: list for fdIsList, map for fdIsMap, otherwise message (Mutable of a scalar field panics inside protobuf-go: fd must be composite)",
		writes: []string{"G$pb."},
		apply: func(c *FnCtx, st *State, in ssa.Instruction, cc *ssa.CallCommon, args []Val) Val {
			c.eng.needProto = true
			fd := fdID(args[1])
			c.oblige(st, "pre", "protoreflect.Mutable:"+c.anchor(in), in.Pos(), or(app("fdIsList", fd), app("fdIsMap", fd), not(eq(app("fdMsg", fd), "0"))),
				"Mutable needs a composite field (message, list or map)", nil)
			v := c.freshVal(st, cc.Signature().Results().At(0).Type(), "pb.value")
			c.assume(st, eq(valKind(v), ite(app("fdIsList", fd), "2", ite(app("fdIsMap", fd), "3", "1"))))
			return v
		}}
	libModels["(protoreflect.Value).Message"] = &libModel{desc: "Value.Message() panics (type mismatch) unless the value holds a message",
		apply: func(c *FnCtx, st *State, in ssa.Instruction, cc *ssa.CallCommon, args []Val) Val {
			c.eng.needProto = true
			c.oblige(st, "pre", "protoreflect.Value.Message:"+c.anchor(in), in.Pos(), eq(valKind(args[0]), "1"), "Value.Message needs a message value (not a list or map)", nil)
			r := c.freshVal(st, cc.Signature().Results().At(0).Type(), "pb.msg").(VIface)
			c.assume(st, lt("0", r.Typ))
			return r
		}}
	libModels["(protoreflect.Value).List"] = &libModel{desc: "Value.List() panics unless the value holds a list",
		apply: func(c *FnCtx, st *State, in ssa.Instruction, cc *ssa.CallCommon, args []Val) Val {
			c.eng.needProto = true
			c.oblige(st, "pre", "protoreflect.Value.List:"+c.anchor(in), in.Pos(), eq(valKind(args[0]), "2"), "Value.List needs a list value", nil)
			r := c.freshVal(st, cc.Signature().Results().At(0).Type(), "pb.list").(VIface)
			c.assume(st, lt("0", r.Typ))
			return r
		}}
	// base64: DecodeString succeeds exactly on the texts valid for that encoding (uninterpreted b64ok_<enc>);
	// valid padded text has a length that is a multiple of four, and unpadded text of such a length is also
	// valid padded text (no padding is needed).
	b64 := func(method string) {
		libModels["(*base64.Encoding)."+method] = &libModel{desc: "DecodeString on base64.StdEncoding / RawStdEncoding returns a nil error exactly for the texts valid in that encoding (b64ok_std / b64ok_raw; b64ok_std(v) implies len(v)%4 == 0; b64ok_raw(v) with len(v)%4 == 0 implies b64ok_std(v)); other encodings unconstrained; no heap effect",
			apply: func(c *FnCtx, st *State, in ssa.Instruction, cc *ssa.CallCommon, args []Val) Val {
				r := c.freshVal(st, cc.Signature().Results(), "b64").(VTuple)
				enc := ""
				if u, ok := cc.Args[0].(*ssa.UnOp); ok {
					if g, ok := u.X.(*ssa.Global); ok && g.Pkg.Pkg.Path() == "encoding/base64" {
						switch g.Name() {
						case "StdEncoding":
							enc = "std"
						case "RawStdEncoding":
							enc = "raw"
						}
					}
				}
				if v, ok := args[1].(VStr); ok && enc != "" {
					c.eng.needB64 = true
					errv := r.E[1].(VIface)
					c.assume(st, eq(eq(errv.Typ, "0"), app("b64ok_"+enc, v.Arr, v.Off, v.Len)))
				}
				return r
			}}
	}
	b64("DecodeString")
	libModels["strings.Split"] = &libModel{
		desc: "strings.Split(s, sep) with a non-empty separator returns at least one element (a fresh slice; the elements are unconstrained)",
		apply: func(c *FnCtx, st *State, in ssa.Instruction, cc *ssa.CallCommon, args []Val) Val {
			r := c.freshVal(st, cc.Signature().Results().At(0).Type(), "split").(VSlice)
			if sep, ok := args[1].(VStr); ok {
				c.assume(st, implies(lt("0", sep.Len), le("1", r.Len)))
			}
			return r
		}}
	libModels["rand.Intn"] = &libModel{
		desc: "rand.Intn(n) requires n > 0 (it panics otherwise) and returns 0 <= r < n",
		apply: func(c *FnCtx, st *State, in ssa.Instruction, cc *ssa.CallCommon, args []Val) Val {
			n := args[0].(VInt).T
			c.oblige(st, "pre", "rand.Intn:"+c.anchor(in), in.Pos(), lt("0", n), "rand.Intn needs a positive argument", nil)
			r := c.declare("rand", sInt)
			c.assume(st, and(le("0", r), lt(r, n)))
			return VInt{r}
		},
	}
	libModels["sort.Sort"] = &libModel{
		desc:   "sort.Sort on a value of type variables: afterwards the slice is non-decreasing in variable.name (the order variables.Less defines) and every element is one of the old elements; other slices of that element type are untouched. Only this instantiation is modelled",
		writes: []string{"E$P_variable"},
		apply: func(c *FnCtx, st *State, in ssa.Instruction, cc *ssa.CallCommon, args []Val) Val {
			iv, _ := args[0].(VIface)
			sl, ok := c.eng.boxed[iv.Pay].(VSlice)
			if !ok || typeName(sl.Elem) != "P_variable" {
				c.abstracted["sort.Sort on an unmodelled type (heap havocked)"]++
				c.havocHeap(st, "")
				return VTuple{}
			}
			ms := mapSort(2, sInt)
			E := c.heapGet(st, "E$P_variable", ms)
			old := c.define("sort.old", sAI, sel(E, sl.Base))
			na := c.declare("sort.new", sAI)
			c.eng.needStrLess = true
			nameOf := func(ref string) VStr {
				p := VPtr{Root: rootObj, Ref: ref, T: sl.Elem.(*types.Pointer).Elem(), Path: []int{1}}
				return c.loadQuiet(st, p).(VStr)
			}
			x := c.fresh("q.x")
			perm := c.fresh("sortperm")
			c.eng.ufDecls[perm] = fmt.Sprintf("(declare-fun %s (Int) Int)", perm)
			lo, hi := sl.Off, plus(sl.Off, sl.Len)
			a, b := nameOf(sel(na, plus(x, "1"))), nameOf(sel(na, x))
			sorted := fmt.Sprintf("(forall ((%s Int)) (! (=> (and (<= %s %s) (< %s (- %s 1))) (not (strless %s %s %s %s %s %s))) :pattern ((select %s %s))))",
				x, lo, x, x, hi, a.Arr, a.Off, a.Len, b.Arr, b.Off, b.Len, na, x)
			permF := fmt.Sprintf("(forall ((%s Int)) (! (ite (and (<= %s %s) (< %s %s)) (and (<= %s (%s %s)) (< (%s %s) %s) (= (select %s %s) (select %s (%s %s)))) (= (select %s %s) (select %s %s))) :pattern ((select %s %s))))",
				x, lo, x, x, hi, lo, perm, x, perm, x, hi, na, x, old, perm, x, na, x, old, x, na, x)
			c.assume(st, and(sorted, permF))
			c.heapSet(st, "E$P_variable", ms, sto(E, sl.Base, na))
			return VTuple{}
		},
	}
	libModels["utf8.DecodeRuneInString"] = &libModel{
		desc: "DecodeRuneInString(s): len(s) == 0 gives (RuneError, 0); otherwise 1 <= size <= min(4, len(s)); a first byte < 0x80 gives (that byte, 1); otherwise 0x80 <= r <= 0x10FFFF and every one of the size bytes consumed is >= 0x80",
		apply: func(c *FnCtx, st *State, in ssa.Instruction, cc *ssa.CallCommon, args []Val) Val {
			s := args[0].(VStr)
			r := c.declare("dr.r", sInt)
			sz := c.declare("dr.size", sInt)
			first := strAt(s, "0")
			c.assume(st, and(
				implies(eq(s.Len, "0"), and(eq(r, "65533"), eq(sz, "0"))),
				implies(lt("0", s.Len), and(le("1", sz), le(sz, "4"), le(sz, s.Len),
					implies(lt(first, "128"), and(eq(r, first), eq(sz, "1"))),
					implies(le("128", first), and(le("128", r), le(r, "1114111"),
						implies(lt("1", sz), le("128", strAt(s, "1"))), implies(lt("2", sz), le("128", strAt(s, "2"))), implies(lt("3", sz), le("128", strAt(s, "3")))))))))
			return VTuple{E: []Val{VInt{r}, VInt{sz}}}
		},
	}
	libModels["utf8.RuneStart"] = &libModel{
		desc: "RuneStart(b) <=> b is not a UTF-8 continuation byte, i.e. not 0x80 <= b < 0xC0",
		apply: func(c *FnCtx, st *State, in ssa.Instruction, cc *ssa.CallCommon, args []Val) Val {
			b := args[0].(VInt).T
			return VBool{c.define("runestart", sBool, not(and(le("128", b), lt(b, "192"))))}
		},
	}
	libModels["unicode.IsLetter"] = &libModel{
		desc: "IsLetter(r) is the uninterpreted predicate ULetter(r), which for r < 0x80 holds exactly for A-Z and a-z (false for negative r)",
		apply: func(c *FnCtx, st *State, in ssa.Instruction, cc *ssa.CallCommon, args []Val) Val {
			c.eng.needUnicode = true
			return VBool{app("ULetter", args[0].(VInt).T)}
		},
	}
	libModels["unicode.IsNumber"] = &libModel{
		desc: "IsNumber(r) is the uninterpreted predicate UNumber(r), which for r < 0x80 holds exactly for 0-9 (false for negative r)",
		apply: func(c *FnCtx, st *State, in ssa.Instruction, cc *ssa.CallCommon, args []Val) Val {
			c.eng.needUnicode = true
			return VBool{app("UNumber", args[0].(VInt).T)}
		},
	}
	libModels["fmt.Sprintf"] = &libModel{
		desc: "Sprintf(\"%%%02x\", byte) returns the 3 bytes '%', hi, lo with hi/lo the lower-case hex digits of the byte; every other format is abstracted (pure, result unconstrained)",
		apply: func(c *FnCtx, st *State, in ssa.Instruction, cc *ssa.CallCommon, args []Val) Val {
			f := args[0].(VStr)
			res := c.freshVal(st, types.Typ[types.String], "sprintf").(VStr)
			if lit, ok := c.eng.litOf[f.Arr]; ok && lit == "%%%02x" {
				va := args[1].(VSlice)
				typM := c.heapGet(st, "E$"+typeName(va.Elem)+".typ", mapSort(2, sInt))
				payM := c.heapGet(st, "E$"+typeName(va.Elem)+".pay", mapSort(2, sInt))
				typ := sel(sel(typM, va.Base), va.Off)
				pay := c.define("spf.byte", sInt, sel(sel(payM, va.Base), va.Off))
				isByte := and(eq(va.Len, "1"), eq(typ, fmt.Sprint(c.eng.typeID(types.Typ[types.Uint8]))))
				hex := func(d string) string { return ite(lt(d, "10"), plus("48", d), plus("87", d)) }
				c.assume(st, implies(isByte, and(eq(res.Len, "3"), eq(strAt(res, "0"), "37"),
					eq(strAt(res, "1"), hex(app("div", pay, "16"))), eq(strAt(res, "2"), hex(app("mod", pay, "16"))))))
			} else {
				c.abstracted["fmt.Sprintf (pure: result unconstrained)"]++
			}
			return res
		},
	}
}

