package main

func registerIOModels() {}
