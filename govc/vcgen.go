package main

// Verification-condition generation: forward symbolic execution of the SSA
// control-flow graph in passive form, loops cut at their heads by invariants.

import (
	"fmt"
	"regexp"
	"go/constant"
	"go/token"
	"go/types"
	"sort"
	"strings"

	"golang.org/x/tools/go/ssa"
)

const maxInt = "9223372036854775807"

const (
	cDeclare = iota
	cDefine
	cAssert
	cLambda
	cRaw
)

type cmd struct {
	kind int
	name string
	sort string
	body string
	idx  string // lambda variable
	only string // assumption tag
}

func (c cmd) render(noLambda bool) string {
	switch c.kind {
	case cDeclare:
		return fmt.Sprintf("(declare-fun %s () %s)", c.name, c.sort)
	case cDefine:
		return fmt.Sprintf("(define-fun %s () %s %s)", c.name, c.sort, c.body)
	case cAssert:
		return fmt.Sprintf("(assert %s)", c.body)
	case cRaw:
		return c.body
	case cLambda:
		if !noLambda {
			return fmt.Sprintf("(define-fun %s () %s (lambda ((%s Int)) %s))", c.name, c.sort, c.idx, c.body)
		}
		return fmt.Sprintf("(declare-fun %s () %s)\n(assert (forall ((%s Int)) (! (= (select %s %s) %s) :pattern ((select %s %s)))))",
			c.name, c.sort, c.idx, c.name, c.idx, c.body, c.name, c.idx)
	}
	panic("cmd kind")
}

type Obligation struct {
	ID     string
	Func   string
	Kind   string
	Anchor string
	Props  []string
	Pos    token.Position
	Text   string // human description
	cmdN   int
	goal   string
	parts  []string // the goal split into conjuncts (each proved separately)
	syntactic int   // conjuncts discharged because they are literally assumed on the path
	allow  map[string]bool
	fn     *FnCtx
	extra  []string // extra assertions (e.g. instantiation hints)
	failedPart int

	Res solveResult
	All []solveResult
	Cross []string // thorough: answers of the other solvers on the whole goal
	Explore string // thorough: result of attempting an unclaimed obligation of a partial contract
}

// rdEvent records one modelled Read/ReadFull call (for building scripted readers in replays).
type rdEvent struct {
	reach, id, n, errTyp, errPay, pos string
}

// vacuityCheck asks that a program point is reachable under the assumptions made so far.
type vacuityCheck struct {
	what   string
	cmdN   int
	reach  string
	status string
}

type ghostClause struct {
	cl   Clause
	seen int
	line int
	done bool
}

type epochRec struct {
	prefix string
	id     int
	pre    *State // "modifies fresh": the state before the havoc; objects older than bound keep their contents
	bound  string
}

type State struct {
	facts     map[string]bool   // formulas assumed on every path into this state (conjuncts, as text)
	ghostInts map[string]string // ghost counters
	cells   map[*ssa.Alloc]Val
	heap    map[string]string
	epochs  []epochRec
	reach   string
	nextRef string
}

func (s *State) clone() *State {
	n := &State{cells: make(map[*ssa.Alloc]Val, len(s.cells)), heap: make(map[string]string, len(s.heap)),
		epochs: append([]epochRec(nil), s.epochs...), reach: s.reach, nextRef: s.nextRef, ghostInts: map[string]string{}}
	for k, v := range s.ghostInts {
		n.ghostInts[k] = v
	}
	n.facts = make(map[string]bool, len(s.facts))
	for k := range s.facts {
		n.facts[k] = true
	}
	for k, v := range s.cells {
		n.cells[k] = v
	}
	for k, v := range s.heap {
		n.heap[k] = v
	}
	return n
}

type loopInfo struct {
	head    *ssa.BasicBlock
	ord     int // 1-based in source order
	blocks  map[*ssa.BasicBlock]bool
	cells   map[*ssa.Alloc]bool
	heapPre []string // heap prefixes written ("" = everything)
	variant []string // variant terms sampled at the head (one per decreases clause)
	headSt  *State
}

type edge struct {
	from, to *ssa.BasicBlock
}

type edgeState struct {
	st   *State
	cond string // full condition: reach(from) && branch cond
}

type FnCtx struct {
	eng      *Engine
	unboxed  map[string]Val
	fn       *ssa.Function
	fc       *FuncContract
	name     string
	cmds     []cmd
	obls     []*Obligation
	nfresh   int
	vals     map[ssa.Value]Val
	edges    map[edge]edgeState
	loops    map[*ssa.BasicBlock]*loopInfo
	entry    *State
	params   map[string]Val
	ghosts   map[string]Val
	results  []string
	anchors  map[string]int
	declared map[string]bool
	notes    []string
	abstracted map[string]int
	assumptions map[string]bool
	noRet    bool
	callOrd  map[string]int
	retCount int
	closureOf map[*ssa.Alloc]*ssa.MakeClosure
	fvs       map[string]VPtr // captured variables when fn is a closure
	callAsserts map[int]int   // assertcall clause index -> matching call sites executed
	curInstr  ssa.Instruction
	prelude   string // declarations and library axioms this function's queries need
	dynOn     bool // this function's contract speaks about dynamic type tags
	frameOnly bool // computing the caller-visible frame (callee writes into its own fresh objects do not count)
	firstIter []string
	allocOrder map[*ssa.Alloc]int
	allProps  []string // the function's properties plus those of its tagged clauses
	rngStart  map[ssa.Value]string // range over a map -> the key set of the map when the range started
	iterMap   map[ssa.Value]string
	iterMapT  map[ssa.Value]*types.Map
	keepTrivial bool
	ensuresAtSeen map[string]bool
	refineHyp string
	refineOf  *FuncContract
	vacuity   []*vacuityCheck
	ghostAt   []ghostClause
	lastLine  int
	rdEvents  []rdEvent
}

func (c *FnCtx) fresh(hint string) string {
	c.nfresh++
	hint = sanitize(hint)
	return fmt.Sprintf("%s!%d", hint, c.nfresh)
}

func sanitize(s string) string {
	var b strings.Builder
	for _, r := range s {
		switch {
		case r >= 'a' && r <= 'z', r >= 'A' && r <= 'Z', r >= '0' && r <= '9', r == '_', r == '.', r == '$', r == '!':
			b.WriteRune(r)
		default:
			b.WriteByte('_')
		}
	}
	if b.Len() == 0 {
		return "x"
	}
	return b.String()
}

func (c *FnCtx) declare(hint, sort string) string {
	n := c.fresh(hint)
	c.cmds = append(c.cmds, cmd{kind: cDeclare, name: n, sort: sort})
	return n
}

func (c *FnCtx) define(hint, sort, body string) string {
	// do not name trivial terms
	if !strings.ContainsAny(body, " (") {
		return body
	}
	n := c.fresh(hint)
	if (sort == sInt && strings.Contains(body, "(ite ")) || strings.HasPrefix(body, "(ite ") {
		// conditional integer terms (wrap-around arithmetic, merges) are named constants too:
		// expanded as macros they would put 'ite' inside quantifier patterns
		c.cmds = append(c.cmds, cmd{kind: cDeclare, name: n, sort: sort})
		c.cmds = append(c.cmds, cmd{kind: cAssert, body: eq(n, body)})
		return n
	}
	if sort == sBool {
		// Booleans (path conditions) are named constants with a defining
		// equation: as macros they would copy quantified invariants into
		// every term that mentions them.
		c.cmds = append(c.cmds, cmd{kind: cDeclare, name: n, sort: sort})
		c.cmds = append(c.cmds, cmd{kind: cAssert, body: eq(n, body)})
		return n
	}
	c.cmds = append(c.cmds, cmd{kind: cDefine, name: n, sort: sort, body: body})
	return n
}

func (c *FnCtx) lambda(hint, elemSort, idx, body string) string {
	n := c.fresh(hint)
	c.cmds = append(c.cmds, cmd{kind: cLambda, name: n, sort: arrSort(elemSort), idx: idx, body: body})
	return n
}

func (c *FnCtx) assert(body string) {
	if body == "true" {
		return
	}
	c.cmds = append(c.cmds, cmd{kind: cAssert, body: body})
}

func (c *FnCtx) assertOnly(tag, body string) {
	c.cmds = append(c.cmds, cmd{kind: cAssert, body: body, only: tag})
}

func (c *FnCtx) note(format string, a ...any) {
	c.notes = append(c.notes, fmt.Sprintf(format, a...))
}

// assume strengthens the path condition of st.
func (c *FnCtx) assume(st *State, cond string) {
	if cond == "true" {
		return
	}
	st.reach = c.define("reach", sBool, and(st.reach, cond))
	if st.facts == nil {
		st.facts = map[string]bool{}
	}
	for _, p := range splitAnd(cond) {
		st.facts[canonBound(p)] = true
	}
}

var boundRe = regexp.MustCompile(`(q\.[A-Za-z0-9_.]+)!\d+`)

// canonBound drops the uniquifying suffix of bound variables so that two evaluations of the same
// quantified spec formula compare equal.
func canonBound(p string) string { return boundRe.ReplaceAllString(p, "$1") }

// obligeAlways records the obligation even when it is syntactically true (structural checks that must be counted).
func (c *FnCtx) obligeAlways(st *State, kind, anchor string, pos token.Pos, cond, text string, tags []string) *Obligation {
	c.keepTrivial = true
	defer func() { c.keepTrivial = false }()
	return c.oblige(st, kind, anchor, pos, cond, text, tags)
}

func (c *FnCtx) oblige(st *State, kind, anchor string, pos token.Pos, cond, text string, tags []string) *Obligation {
	key := kind + "[" + anchor + "]"
	c.anchors[key]++
	if n := c.anchors[key]; n > 1 {
		key = fmt.Sprintf("%s[%s#%d]", kind, anchor, n)
	}
	props := tags
	if len(props) == 0 {
		// an untagged obligation (safety, loop invariant, callee precondition, untagged clause) supports every
		// clause of the function: it counts for the function's properties and for those of its tagged clauses
		if c.allProps == nil {
			seen := map[string]bool{}
			for _, p := range c.fc.Serves {
				if !seen[p] {
					seen[p] = true
					c.allProps = append(c.allProps, p)
				}
			}
			for _, cl := range c.fc.Clauses {
				for _, p := range cl.Tags {
					if !seen[p] {
						seen[p] = true
						c.allProps = append(c.allProps, p)
					}
				}
			}
			sort.Strings(c.allProps)
		}
		props = c.allProps
	}
	if trivialTrue(cond) && !c.keepTrivial {
		return nil
	}
	o := &Obligation{ID: c.name + "/" + key, Func: c.name, Kind: kind, Anchor: anchor, Props: props,
		Text: text, cmdN: len(c.cmds), goal: implies(st.reach, cond), fn: c, allow: map[string]bool{}}
	for _, p := range splitAnd(cond) {
		// a conjunct that is literally one of the facts assumed on every path to this point needs no solver
		if st.facts[canonBound(p)] || st.facts[canonBound(consequent(p))] {
			o.syntactic++
			continue
		}
		o.parts = append(o.parts, implies(st.reach, p))
	}
	if pos.IsValid() {
		o.Pos = c.eng.prog.Fset.Position(pos)
	}
	if kind == "dec" {
		o.allow["ReaderProgress"] = true
	}
	c.obls = append(c.obls, o)
	switch kind {
	case "index", "slice", "make", "div", "conv":
		// execution continues only when the check passed (otherwise the program panicked)
		c.assume(st, cond)
	}
	return o
}

// ---------------------------------------------------------------------------
// Heap access

func (c *FnCtx) heapGet(st *State, name, sort string) string {
	if t, ok := st.heap[name]; ok {
		return t
	}
	ep := 0
	var rec *epochRec
	for i := len(st.epochs) - 1; i >= 0 && !c.eng.isImmutable(name); i-- {
		if strings.HasPrefix(name, st.epochs[i].prefix) {
			ep = st.epochs[i].id
			rec = &st.epochs[i]
			break
		}
	}
	n := fmt.Sprintf("H!%s!e%d", sanitize(name), ep)
	if !c.declared[n] {
		c.declared[n] = true
		c.cmds = append(c.cmds, cmd{kind: cDeclare, name: n, sort: sort})
		c.eng.heapSorts[name] = sort
		if rec != nil && rec.pre != nil && strings.HasPrefix(sort, "(Array Int") {
			// the callee wrote this family only in objects it allocated itself
			old := c.heapGet(rec.pre, name, sort)
			r := c.fresh("fr")
			c.assert(fmt.Sprintf("(forall ((%s Int)) (! (=> (and (<= 0 %s) (< %s %s)) (= (select %s %s) (select %s %s))) :pattern ((select %s %s))))",
				r, r, r, rec.bound, n, r, old, r, n, r))
		}
	}
	st.heap[name] = n
	return n
}

func (c *FnCtx) heapSet(st *State, name, sort, term string) {
	c.eng.heapSorts[name] = sort
	st.heap[name] = c.define("H."+name, sort, term)
}

func (c *FnCtx) havocHeap(st *State, prefix string) {
	if prefix == "" {
		// the produced-keys sets of this activation's ranges over maps are not heap: no call can change them
		keep := map[string]string{}
		for _, k := range sortedKeys(c.eng.heapSorts) {
			if strings.HasPrefix(k, "G$rng.") {
				if _, have := st.heap[k]; have {
					keep[k] = st.heap[k]
				}
			}
		}
		defer func() {
			for k, t := range keep {
				st.heap[k] = t
			}
		}()
	}
	c.nfresh++
	id := c.nfresh
	// families declared immutable keep their value: materialise them before the epoch changes
	for k := range st.heap {
		if strings.HasPrefix(k, prefix) && !c.eng.isImmutable(k) {
			delete(st.heap, k)
		}
	}
	st.epochs = append(st.epochs, epochRec{prefix: prefix, id: id})
	if prefix == "" {
		// allocation counter may have advanced
		nr := c.declare("nextRef", sInt)
		c.assert(le(st.nextRef, nr))
		st.nextRef = nr
	}
}

// havocHeapLib: a call into a dependency without a contract may change every heap family except the
// ghost fields the contract file declares (gf / gfa): those are written by ghost statements only.
func (c *FnCtx) havocHeapLib(st *State) {
	ghost := func(k string) bool { return strings.HasPrefix(k, "G$gf.") || strings.HasPrefix(k, "G$gfa.") }
	for _, k := range sortedKeys(c.eng.heapSorts) {
		if ghost(k) {
			c.heapGet(st, k, c.eng.heapSorts[k])
		}
	}
	keep := map[string]string{}
	for k, t := range st.heap {
		if ghost(k) {
			keep[k] = t
		}
	}
	c.havocHeap(st, "")
	for k, t := range keep {
		st.heap[k] = t
	}
	if len(keep) > 0 {
		c.assumptions["ghost fields (gf / gfa) are not changed by calls into dependencies"] = true
	}
}

// havocHeapFresh: the families with this prefix change, but only in objects allocated after this point.
func (c *FnCtx) havocHeapFresh(st *State, prefix string) {
	c.havocHeapFreshFrom(st, prefix, st.clone())
}

// havocHeapFreshFrom: objects that existed in state pre keep the contents they had in pre.
func (c *FnCtx) havocHeapFreshFrom(st *State, prefix string, pre *State) {
	c.havocHeap(st, prefix)
	rec := &st.epochs[len(st.epochs)-1]
	rec.pre, rec.bound = pre, pre.nextRef
	for _, k := range sortedKeys(pre.heap) {
		if strings.HasPrefix(k, prefix) && !c.eng.isImmutable(k) {
			c.heapGet(st, k, c.eng.heapSorts[k])
		}
	}
}

// freshFamily: the families with this prefix are all declared "modifies fresh" by this function's contract.
func (c *FnCtx) freshFamily(prefix string) bool {
	for _, f := range c.fc.ModFresh {
		if strings.HasPrefix(prefix, f) {
			return true
		}
	}
	return false
}

// obligeFresh: under "modifies fresh X" every write into X goes to an object allocated by this call.
func (c *FnCtx) obligeFresh(st *State, fam, ref string, in ssa.Instruction) {
	for _, f := range c.fc.ModFresh {
		if strings.HasPrefix(fam, f) {
			pos := token.NoPos
			anchor := fam
			if in != nil {
				pos, anchor = in.Pos(), c.anchor(in)
			}
			c.oblige(st, "frame", anchor, pos, le(c.entry.nextRef, ref), "write into "+fam+" targets an object allocated by this call (modifies fresh "+f+")", nil)
			return
		}
	}
}

// leaf describes one scalar component of a type.
type leaf struct {
	suffix string
	sort   string
}

func (c *FnCtx) leavesOf(t types.Type) []leaf {
	switch u := t.Underlying().(type) {
	case *types.Basic:
		switch {
		case u.Info()&types.IsString != 0:
			return []leaf{{".arr", sAI}, {".off", sInt}, {".len", sInt}}
		case u.Info()&types.IsBoolean != 0:
			return []leaf{{"", sBool}}
		case u.Info()&types.IsFloat != 0:
			return []leaf{{"", sReal}}
		default:
			return []leaf{{"", sInt}}
		}
	case *types.Slice:
		return []leaf{{".base", sInt}, {".off", sInt}, {".len", sInt}, {".cap", sInt}}
	case *types.Interface:
		return []leaf{{".typ", sInt}, {".pay", sInt}}
	case *types.Struct:
		var out []leaf
		for i := 0; i < u.NumFields(); i++ {
			f := u.Field(i)
			if _, isArr := f.Type().Underlying().(*types.Array); isArr {
				continue // array fields live in the element heap
			}
			for _, l := range c.leavesOf(f.Type()) {
				out = append(out, leaf{"." + f.Name() + l.suffix, l.sort})
			}
		}
		return out
	case *types.Array:
		panic(unsupported("array value as leaves (%s)", t))
	default:
		// pointers, maps, chans, funcs, signatures
		return []leaf{{"", sInt}}
	}
}

// zeroVal returns the zero value of t.
func (c *FnCtx) zeroVal(t types.Type) Val {
	switch u := t.Underlying().(type) {
	case *types.Basic:
		switch {
		case u.Info()&types.IsString != 0:
			return VStr{c.eng.emptyArr(), "0", "0"}
		case u.Info()&types.IsBoolean != 0:
			return VBool{"false"}
		case u.Info()&types.IsFloat != 0:
			return VReal{"0.0"}
		case u.Kind() == types.UnsafePointer:
			return VInt{"0"}
		default:
			return VInt{"0"}
		}
	case *types.Slice:
		return VSlice{"0", "0", "0", "0", u.Elem(), ""}
	case *types.Interface:
		return VIface{"0", "0"}
	case *types.Struct:
		out := VStruct{T: u, N: typeName(t)}
		for i := 0; i < u.NumFields(); i++ {
			if _, isArr := u.Field(i).Type().Underlying().(*types.Array); isArr {
				out.F = append(out.F, nil)
				continue
			}
			out.F = append(out.F, c.zeroVal(u.Field(i).Type()))
		}
		return out
	case *types.Pointer:
		return VPtr{Root: rootObj, Ref: "0", T: u.Elem()}
	case *types.Tuple:
		out := VTuple{}
		for i := 0; i < u.Len(); i++ {
			out.E = append(out.E, c.zeroVal(u.At(i).Type()))
		}
		return out
	default:
		return VInt{"0"}
	}
}

// freshVal returns an unconstrained value of type t (with its type invariant assumed).
func (c *FnCtx) freshVal(st *State, t types.Type, hint string) Val {
	switch u := t.Underlying().(type) {
	case *types.Basic:
		switch {
		case u.Info()&types.IsString != 0:
			v := VStr{c.declare(hint+".arr", sAI), "0", c.declare(hint+".len", sInt)}
			c.assert(and(le("0", v.Len), le(v.Len, maxInt)))
			return v
		case u.Info()&types.IsBoolean != 0:
			return VBool{c.declare(hint, sBool)}
		case u.Info()&types.IsFloat != 0:
			return VReal{c.declare(hint, sReal)}
		case u.Info()&types.IsInteger != 0:
			n := c.declare(hint, sInt)
			lo, hi := intRange(t)
			c.assert(and(le(lo, n), le(n, hi)))
			return VInt{n}
		default:
			return VInt{c.declare(hint, sInt)}
		}
	case *types.Slice:
		v := VSlice{c.declare(hint+".base", sInt), c.declare(hint+".off", sInt), c.declare(hint+".len", sInt), c.declare(hint+".cap", sInt), u.Elem(), ""}
		// (bases of slices into array fields of structs are negative, see arrayBase)
		c.assert(and(le("0", v.Off), le("0", v.Len), le(v.Len, v.Cap), le(plus(v.Off, v.Cap), maxInt)))
		c.assert(and(lt(v.Base, st.nextRef), or(le(v.Base, "0"), lt("1000", v.Base))))
		// nil slice has zero len/cap
		c.assert(implies(eq(v.Base, "0"), and(eq(v.Cap, "0"), eq(v.Off, "0"))))
		return v
	case *types.Interface:
		v := VIface{c.declare(hint+".typ", sInt), c.declare(hint+".pay", sInt)}
		c.assert(and(le("0", v.Typ), implies(eq(v.Typ, "0"), eq(v.Pay, "0"))))
		return v
	case *types.Struct:
		out := VStruct{T: u, N: typeName(t)}
		for i := 0; i < u.NumFields(); i++ {
			if _, isArr := u.Field(i).Type().Underlying().(*types.Array); isArr {
				out.F = append(out.F, nil)
				continue
			}
			out.F = append(out.F, c.freshVal(st, u.Field(i).Type(), hint+"."+u.Field(i).Name()))
		}
		return out
	case *types.Pointer:
		n := c.declare(hint, sInt)
		c.assert(and(le("0", n), lt(n, st.nextRef), or(eq(n, "0"), lt("1000", n))))
		if tag := c.eng.dynTag(u.Elem()); tag != "" && c.dynOn {
			// well-typed heap: a non-nil *T points to an object allocated as a T
			c.assert(implies(lt("0", n), eq(sel(c.heapGet(st, "G$dyn.type", arrSort(sInt)), n), tag)))
		}
		return VPtr{Root: rootObj, Ref: n, T: u.Elem()}
	case *types.Tuple:
		out := VTuple{}
		for i := 0; i < u.Len(); i++ {
			out.E = append(out.E, c.freshVal(st, u.At(i).Type(), fmt.Sprintf("%s.%d", hint, i)))
		}
		return out
	case *types.Map:
		n := c.declare(hint, sInt)
		c.assert(and(le("0", n), lt(n, st.nextRef)))
		return VInt{n}
	default:
		n := c.declare(hint, sInt)
		c.assert(le("0", n))
		return VInt{n}
	}
}

// typeInvariant returns the assumption that a value read from memory satisfies its type.
func (c *FnCtx) typeInv(st *State, v Val, t types.Type) string {
	switch u := t.Underlying().(type) {
	case *types.Basic:
		if u.Info()&types.IsInteger != 0 {
			lo, hi := intRange(t)
			x := v.(VInt).T
			return and(le(lo, x), le(x, hi))
		}
		if u.Info()&types.IsString != 0 {
			s := v.(VStr)
			return and(le("0", s.Len), le("0", s.Off), le(plus(s.Off, s.Len), maxInt))
		}
	case *types.Slice:
		s := v.(VSlice)
		return and(lt(s.Base, st.nextRef), le("0", s.Off), le("0", s.Len), le(s.Len, s.Cap), le(plus(s.Off, s.Cap), maxInt),
			implies(eq(s.Base, "0"), and(eq(s.Cap, "0"), eq(s.Off, "0"))))
	case *types.Interface:
		i := v.(VIface)
		return and(le("0", i.Typ), implies(eq(i.Typ, "0"), eq(i.Pay, "0")))
	case *types.Map:
		if m, ok := v.(VInt); ok {
			return and(le("0", m.T), lt(m.T, st.nextRef)) // a map value is nil or an allocated map
		}
	case *types.Pointer:
		if p, ok := v.(VPtr); ok && p.Root == rootObj && len(p.Path) == 0 {
			if tag := c.eng.dynTag(u.Elem()); tag != "" && c.dynOn {
				return and(le("0", p.Ref), implies(and(lt("0", p.Ref), lt(p.Ref, "4611686018427387904")), eq(sel(c.heapGet(st, "G$dyn.type", arrSort(sInt)), p.Ref), tag)))
			}
			return le("0", p.Ref) // (pointers into arrays kept in memory are encoded as huge references, see elemptr)
		}
	case *types.Struct:
		sv := v.(VStruct)
		var parts []string
		for i := 0; i < u.NumFields(); i++ {
			if sv.F[i] == nil {
				continue
			}
			parts = append(parts, c.typeInv(st, sv.F[i], u.Field(i).Type()))
		}
		return and(parts...)
	}
	return "true"
}

// elemFam names the element heap of a backing array: the ordinary heap of that
// element type, or a declared read-only region.
func elemFam(elem types.Type, reg string) string {
	if reg != "" {
		return "R$" + reg
	}
	return "E$" + typeName(elem)
}

// heapName returns the leaf-map family name for an address.
func (c *FnCtx) addrFamily(p VPtr) (family string, index []string, t types.Type) {
	t = p.T
	switch p.Root {
	case rootObj:
		if st, ok := p.T.Underlying().(*types.Struct); ok {
			family = "F$" + typeName(p.T)
			_ = st
		} else {
			family = "C$" + typeName(p.T)
		}
		index = []string{p.Ref}
	case rootElem:
		family = elemFam(p.T, p.Reg)
		index = []string{p.Ref, p.Idx}
	case rootGlobal:
		family = "G$" + p.Glob.Pkg.Pkg.Name() + "." + p.Glob.Name()
		index = nil
	default:
		panic("addrFamily of local")
	}
	for _, f := range p.Path {
		st := t.Underlying().(*types.Struct)
		family += "." + st.Field(f).Name()
		t = st.Field(f).Type()
	}
	return
}

func mapSort(nidx int, s string) string {
	for i := 0; i < nidx; i++ {
		s = arrSort(s)
	}
	return s
}

func selN(m string, idx []string) string {
	for _, i := range idx {
		m = sel(m, i)
	}
	return m
}

func stoN(m string, idx []string, v string) string {
	switch len(idx) {
	case 0:
		return v
	case 1:
		return sto(m, idx[0], v)
	case 2:
		return sto(m, idx[0], sto(sel(m, idx[0]), idx[1], v))
	}
	panic("stoN")
}

// valFromLeaves builds a value of type t from leaf terms produced by get(suffix, sort).
func (c *FnCtx) valFromLeaves(t types.Type, prefix string, get func(name, sort string) string) Val {
	switch u := t.Underlying().(type) {
	case *types.Basic:
		switch {
		case u.Info()&types.IsString != 0:
			return VStr{get(prefix+".arr", sAI), get(prefix+".off", sInt), get(prefix+".len", sInt)}
		case u.Info()&types.IsBoolean != 0:
			return VBool{get(prefix, sBool)}
		case u.Info()&types.IsFloat != 0:
			return VReal{get(prefix, sReal)}
		default:
			return VInt{get(prefix, sInt)}
		}
	case *types.Slice:
		return VSlice{get(prefix+".base", sInt), get(prefix+".off", sInt), get(prefix+".len", sInt), get(prefix+".cap", sInt), u.Elem(), c.eng.cs.Regions[prefix]}
	case *types.Interface:
		return VIface{get(prefix+".typ", sInt), get(prefix+".pay", sInt)}
	case *types.Struct:
		out := VStruct{T: u, N: typeName(t)}
		for i := 0; i < u.NumFields(); i++ {
			f := u.Field(i)
			if _, isArr := f.Type().Underlying().(*types.Array); isArr {
				out.F = append(out.F, nil)
				continue
			}
			out.F = append(out.F, c.valFromLeaves(f.Type(), prefix+"."+f.Name(), get))
		}
		return out
	case *types.Pointer:
		return VPtr{Root: rootObj, Ref: get(prefix, sInt), T: u.Elem()}
	case *types.Array:
		panic(unsupported("load of array value %s", t))
	default:
		return VInt{get(prefix, sInt)}
	}
}

func (c *FnCtx) valToLeaves(v Val, t types.Type, prefix string, put func(name, sort, term string)) {
	switch u := t.Underlying().(type) {
	case *types.Struct:
		sv, ok := v.(VStruct)
		if !ok {
			panic(unsupported("store of %T as struct", v))
		}
		for i := 0; i < u.NumFields(); i++ {
			f := u.Field(i)
			if sv.F[i] == nil {
				continue
			}
			c.valToLeaves(sv.F[i], f.Type(), prefix+"."+f.Name(), put)
		}
		return
	}
	ls := c.leavesOf(t)
	ts := flatten(v)
	if len(ls) != len(ts) {
		panic(unsupported("store shape mismatch %s: %d leaves vs %d terms", t, len(ls), len(ts)))
	}
	for i, l := range ls {
		put(prefix+l.suffix, l.sort, ts[i])
	}
}

func (c *FnCtx) load(st *State, p VPtr, pos token.Pos) Val {
	if p.Root == rootLocal {
		v, ok := st.cells[p.Alloc]
		if !ok {
			v = c.zeroVal(p.Alloc.Type().(*types.Pointer).Elem())
		}
		for _, f := range p.Path {
			v = v.(VStruct).F[f]
		}
		return v
	}
	fam, idx, t := c.addrFamily(p)
	v := c.valFromLeaves(t, fam, func(name, sort string) string {
		m := c.heapGet(st, name, mapSort(len(idx), sort))
		return selN(m, idx)
	})
	// name the loaded leaves to keep terms small, and assume the type invariant
	ts := flatten(v)
	ss := leafSorts(v)
	for i := range ts {
		ts[i] = c.define("ld", ss[i], ts[i])
	}
	v, _ = rebuild(v, ts)
	if inv := c.typeInv(st, v, t); inv != "true" {
		c.assert(inv)
	}
	if p.Root == rootObj && c.freshFamily(fam) && c.entry != nil {
		// under "modifies fresh" an object older than this call still holds what it held at entry,
		// and the heap at entry refers only to objects that existed then (well-typed heap)
		old := lt(p.Ref, c.entry.nextRef)
		switch x := v.(type) {
		case VInt:
			if _, isMap := t.Underlying().(*types.Map); isMap {
				c.assert(implies(old, lt(x.T, c.entry.nextRef)))
			}
		case VSlice:
			c.assert(implies(old, lt(x.Base, c.entry.nextRef)))
		}
	}
	if p.Root == rootElem && len(p.Path) == 0 {
		if ref, ok := atoiSafe(p.Ref); ok {
			if vals, ok := c.eng.globArrays[ref]; ok {
				if iv, ok := v.(VInt); ok {
					for k, val := range vals {
						c.assert(implies(eq(p.Idx, fmt.Sprint(k)), eq(iv.T, val)))
					}
					c.assumptions[fmt.Sprintf("package-level array (global #%d) holds its initial constant contents: no store to it exists outside init (checked by scan)", ref)] = true
				}
			}
		}
	}
	return v
}

func setPath(v Val, path []int, x Val) Val {
	if len(path) == 0 {
		return x
	}
	sv := v.(VStruct)
	nf := append([]Val(nil), sv.F...)
	nf[path[0]] = setPath(sv.F[path[0]], path[1:], x)
	return VStruct{F: nf, T: sv.T, N: sv.N}
}

func (c *FnCtx) store(st *State, p VPtr, v Val) {
	if p.Root == rootLocal {
		cur, ok := st.cells[p.Alloc]
		if !ok {
			cur = c.zeroVal(p.Alloc.Type().(*types.Pointer).Elem())
		}
		st.cells[p.Alloc] = setPath(cur, p.Path, v)
		return
	}
	if p.Root == rootElem && p.Reg != "" {
		panic(unsupported("write into the read-only region %s", p.Reg))
	}
	fam, idx, t := c.addrFamily(p)
	if len(c.fc.ModFresh) > 0 && len(idx) > 0 {
		c.obligeFresh(st, fam, idx[0], c.curInstr)
	}
	if sl, ok := v.(VSlice); ok && c.eng.cs.Regions[fam] != "" && sl.Reg != c.eng.cs.Regions[fam] {
		c.assumptions["ownership: a slice stored into "+fam+" hands its backing array over to the read-only region "+c.eng.cs.Regions[fam]+" (the array is never written again; the region holds its contents at the hand-over)"] = true
		if sl.Reg == "" {
			// the region's view of this array is its content now
			reg := c.eng.cs.Regions[fam]
			for _, l := range c.leavesOf(sl.Elem) {
				ms := mapSort(2, l.sort)
				c.assume(st, eq(sel(c.heapGet(st, elemFam(sl.Elem, reg)+l.suffix, ms), sl.Base), sel(c.heapGet(st, elemFam(sl.Elem, "")+l.suffix, ms), sl.Base)))
			}
		}
	}
	c.valToLeaves(v, t, fam, func(name, sort, term string) {
		ms := mapSort(len(idx), sort)
		m := c.heapGet(st, name, ms)
		c.heapSet(st, name, ms, stoN(m, idx, term))
	})
}

// ---------------------------------------------------------------------------
// Integer arithmetic with exact wrap-around

func isLit(s string) bool {
	if s == "" {
		return false
	}
	for _, ch := range s {
		if ch < '0' || ch > '9' {
			return false
		}
	}
	return true
}

func wrapAddSub(t types.Type, e string) string {
	bits := intBits(t)
	if isUnsigned(t) {
		m := pow2[bits]
		return ite(lt(e, "0"), plus(e, m), ite(app(">=", e, m), minus(e, m), e))
	}
	m := pow2[bits]
	h := pow2[bits-1]
	return ite(app(">=", e, h), minus(e, m), ite(lt(e, app("-", h)), plus(e, m), e))
}

func wrapMod(t types.Type, e string) string {
	bits := intBits(t)
	m := pow2[bits]
	if isUnsigned(t) {
		return app("mod", e, m)
	}
	h := pow2[bits-1]
	return minus(app("mod", plus(e, h), m), h)
}

func tdiv(a, b string) string {
	// Go truncated division
	if isLit(b) && b != "0" {
		return ite(app(">=", a, "0"), app("div", a, b), app("-", app("div", app("-", a), b)))
	}
	return ite(app(">", b, "0"),
		ite(app(">=", a, "0"), app("div", a, b), app("-", app("div", app("-", a), b))),
		ite(app(">=", a, "0"), app("-", app("div", a, app("-", b))), app("div", app("-", a), app("-", b))))
}

// bitAnd of x with a literal mask, by bit expansion (x assumed non-negative).
func bitAndLit(x string, mask uint64) string {
	var parts []string
	for k := 0; k < 64; k++ {
		if mask&(1<<uint(k)) == 0 {
			continue
		}
		p := fmt.Sprintf("%d", uint64(1)<<uint(k))
		bit := app("mod", app("div", x, p), "2")
		if k == 0 {
			bit = app("mod", x, "2")
		}
		if k == 0 {
			parts = append(parts, bit)
		} else {
			parts = append(parts, app("*", p, bit))
		}
	}
	switch len(parts) {
	case 0:
		return "0"
	case 1:
		return parts[0]
	}
	return app("+", parts...)
}

func parseLit(s string) (uint64, bool) {
	if !isLit(s) || len(s) > 19 {
		return 0, false
	}
	var v uint64
	for _, ch := range s {
		v = v*10 + uint64(ch-'0')
	}
	return v, true
}

func (e *Engine) bitAnd(a, b string) string {
	if m, ok := parseLit(a); ok {
		return bitAndLit(b, m)
	}
	if m, ok := parseLit(b); ok {
		return bitAndLit(a, m)
	}
	e.needBand = true
	return app("band", a, b)
}

func (c *FnCtx) binopInt(op token.Token, t types.Type, x, y string, in *ssa.BinOp, st *State) string {
	switch op {
	case token.ADD:
		return wrapAddSub(t, plus(x, y))
	case token.SUB:
		return wrapAddSub(t, minus(x, y))
	case token.MUL:
		if !isLit(x) && !isLit(y) {
			c.note("nonlinear multiplication at %s", c.eng.prog.Fset.Position(in.Pos()))
		}
		return wrapMod(t, app("*", x, y))
	case token.QUO:
		c.oblige(st, "div", c.anchor(in), in.Pos(), not(eq(y, "0")), "divisor non-zero", nil)
		return wrapAddSub(t, tdiv(x, y))
	case token.REM:
		c.oblige(st, "div", c.anchor(in), in.Pos(), not(eq(y, "0")), "divisor non-zero", nil)
		return minus(x, app("*", y, tdiv(x, y)))
	case token.AND:
		if isUnsigned(t) || true {
			return c.eng.bitAnd(x, y)
		}
	case token.OR:
		// a|b = a + b - (a&b)
		return minus(plus(x, y), c.eng.bitAnd(x, y))
	case token.XOR:
		return minus(plus(x, y), app("*", "2", c.eng.bitAnd(x, y)))
	case token.AND_NOT:
		return minus(x, c.eng.bitAnd(x, y))
	case token.SHL:
		if n, ok := parseLit(y); ok && n < 63 {
			return wrapMod(t, app("*", x, fmt.Sprintf("%d", uint64(1)<<n)))
		}
	case token.SHR:
		if n, ok := parseLit(y); ok && n < 63 {
			if isUnsigned(t) {
				return app("div", x, fmt.Sprintf("%d", uint64(1)<<n))
			}
			// arithmetic shift = floor division
			return app("div", x, fmt.Sprintf("%d", uint64(1)<<n))
		}
	}
	panic(unsupported("integer op %s at %s", op, c.eng.prog.Fset.Position(in.Pos())))
}

func cmpOp(op token.Token) string {
	switch op {
	case token.LSS:
		return "<"
	case token.LEQ:
		return "<="
	case token.GTR:
		return ">"
	case token.GEQ:
		return ">="
	}
	return ""
}

func (c *FnCtx) convertInt(from, to types.Type, x string) string {
	fb, tb := intBits(from), intBits(to)
	fu, tu := isUnsigned(from), isUnsigned(to)
	switch {
	case fu == tu && fb <= tb:
		return x
	case fu && !tu && fb < tb:
		return x
	case !fu && tu && fb <= tb:
		// negative values wrap once
		return ite(lt(x, "0"), plus(x, pow2[tb]), x)
	case fu && !tu && fb == tb:
		return ite(app(">=", x, pow2[tb-1]), minus(x, pow2[tb]), x)
	}
	return wrapMod(to, x)
}

// ---------------------------------------------------------------------------
// Strings

func (c *FnCtx) strConst(s string) VStr {
	return VStr{c.eng.strLit(s), "0", fmt.Sprint(len(s))}
}

func strAt(s VStr, i string) string { return sel(s.Arr, plus(s.Off, i)) }

// strEqConst compares s with a literal.
func strEqConst(s VStr, lit string) string {
	parts := []string{eq(s.Len, fmt.Sprint(len(lit)))}
	for i := 0; i < len(lit); i++ {
		parts = append(parts, eq(strAt(s, fmt.Sprint(i)), fmt.Sprint(lit[i])))
	}
	return and(parts...)
}

func (c *FnCtx) strEq(a, b VStr) string {
	// two whole literals: decided here
	if la, ok := c.eng.litOf[a.Arr]; ok && a.Off == "0" && a.Len == fmt.Sprint(len(la)) {
		if lb, ok := c.eng.litOf[b.Arr]; ok && b.Off == "0" && b.Len == fmt.Sprint(len(lb)) {
			if la == lb {
				return "true"
			}
			return "false"
		}
	}
	if lit, ok := c.eng.litOf[a.Arr]; ok && a.Off == "0" {
		return strEqConst(b, lit)
	}
	if lit, ok := c.eng.litOf[b.Arr]; ok && b.Off == "0" {
		return strEqConst(a, lit)
	}
	if a == b {
		return "true"
	}
	k := c.fresh("k")
	return and(eq(a.Len, b.Len),
		fmt.Sprintf("(forall ((%s Int)) (=> (and (<= 0 %s) (< %s %s)) (= %s %s)))", k, k, k, a.Len, strAt(a, k), strAt(b, k)))
}

// ---------------------------------------------------------------------------
// Anchors

func (c *FnCtx) anchor(in ssa.Instruction) string {
	pos := in.Pos()
	if v, ok := in.(ssa.Value); ok && !pos.IsValid() {
		_ = v
	}
	if !pos.IsValid() {
		return "?"
	}
	return c.eng.srcText(pos, in)
}

// ---------------------------------------------------------------------------
// Pointer helpers

func (c *FnCtx) ptrOf(v Val) VPtr {
	switch p := v.(type) {
	case VPtr:
		return p
	case VInt:
		return VPtr{Root: rootObj, Ref: p.T}
	}
	panic(unsupported("pointer value %T", v))
}

func (c *FnCtx) nilCheck(st *State, p VPtr, in ssa.Instruction, what string) {
	if p.Root != rootObj || len(p.Path) > 0 {
		return
	}
	if c.eng.knownNonNil[p.Ref] {
		return
	}
	c.oblige(st, "nil", c.anchor(in), in.Pos(), not(eq(p.Ref, "0")), what+" is not nil", nil)
	// after the check the pointer is non-nil on this path
	c.assume(st, not(eq(p.Ref, "0")))
}

// arrayBase returns the element-heap base for a pointer to an array.
func (c *FnCtx) arrayBase(p VPtr) string {
	switch p.Root {
	case rootObj:
		if len(p.Path) == 0 {
			return p.Ref
		}
		if len(p.Path) == 1 {
			// negative, injective in (ref, field)
			return app("-", app("-", app("*", p.Ref, "64")), fmt.Sprint(p.Path[0]+1))
		}
	case rootGlobal:
		if len(p.Path) == 0 {
			return fmt.Sprint(c.eng.globalRef(p.Glob))
		}
	}
	panic(unsupported("array base of %+v", p))
}

func sortedKeys[V any](m map[string]V) []string {
	var ks []string
	for k := range m {
		ks = append(ks, k)
	}
	sort.Strings(ks)
	return ks
}

func constInt(cst *ssa.Const) (string, bool) {
	if cst.Value == nil {
		return "0", true
	}
	if cst.Value.Kind() == constant.Int {
		return numBig(cst.Value.ExactString()), true
	}
	return "", false
}

// trivialTrue decides conjunctions of comparisons between literals.
func trivialTrue(cond string) bool {
	if cond == "true" {
		return true
	}
	if strings.HasPrefix(cond, "(and ") {
		// split top-level conjuncts
		body := cond[5 : len(cond)-1]
		d := 0
		start := 0
		for i := 0; i <= len(body); i++ {
			if i == len(body) || (body[i] == ' ' && d == 0) {
				if !trivialTrue(body[start:i]) {
					return false
				}
				start = i + 1
				continue
			}
			if body[i] == '(' {
				d++
			} else if body[i] == ')' {
				d--
			}
		}
		return true
	}
	var op string
	var a, b uint64
	f := strings.Fields(strings.Trim(cond, "()"))
	if len(f) != 3 || strings.Count(cond, "(") != 1 {
		return false
	}
	op = f[0]
	var ok1, ok2 bool
	a, ok1 = parseLit(f[1])
	b, ok2 = parseLit(f[2])
	if !ok1 || !ok2 {
		return false
	}
	switch op {
	case "<=":
		return a <= b
	case "<":
		return a < b
	case "=":
		return a == b
	}
	return false
}

// splitAnd flattens nested top-level conjunctions.
func splitAnd(cond string) []string {
	if strings.HasPrefix(cond, "(=> ") {
		// (=> a (and b c)) splits into (=> a b), (=> a c)
		body := cond[4 : len(cond)-1]
		d := 0
		for i := 0; i < len(body); i++ {
			if body[i] == '(' {
				d++
			} else if body[i] == ')' {
				d--
			}
			if d == 0 && (body[i] == ' ' || body[i] == ')') {
				cut := i
				if body[i] == ')' {
					cut = i + 1
				}
				ante, cons := body[:cut], strings.TrimSpace(body[cut:])
				parts := splitAnd(cons)
				if len(parts) == 1 {
					return []string{cond}
				}
				var out []string
				for _, p := range parts {
					out = append(out, "(=> "+ante+" "+p+")")
				}
				return out
			}
		}
		return []string{cond}
	}
	if !strings.HasPrefix(cond, "(and ") {
		return []string{cond}
	}
	body := cond[5 : len(cond)-1]
	var out []string
	d := 0
	start := 0
	for i := 0; i <= len(body); i++ {
		if i == len(body) || (body[i] == ' ' && d == 0) {
			if i > start {
				out = append(out, splitAnd(body[start:i])...)
			}
			start = i + 1
			continue
		}
		if body[i] == '(' {
			d++
		} else if body[i] == ')' {
			d--
		}
	}
	return out
}

// consequent returns b for "(=> a b)" and "" otherwise.
func consequent(p string) string {
	if !strings.HasPrefix(p, "(=> ") {
		return ""
	}
	body := p[4 : len(p)-1]
	d := 0
	for i := 0; i < len(body); i++ {
		if body[i] == '(' {
			d++
		} else if body[i] == ')' {
			d--
		}
		if d == 0 && (body[i] == ' ' || body[i] == ')') {
			cut := i
			if body[i] == ')' {
				cut = i + 1
			}
			return strings.TrimSpace(body[cut:])
		}
	}
	return ""
}
