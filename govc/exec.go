package main

// Symbolic execution of one function against its contract.

import (
	"fmt"
	"go/token"
	"go/types"
	"os"
	"sort"
	"strings"

	"golang.org/x/tools/go/ssa"
)

func (e *Engine) newFnCtx(fn *ssa.Function, fc *FuncContract) *FnCtx {
	return &FnCtx{eng: e, fn: fn, fc: fc, name: fc.Key, vals: map[ssa.Value]Val{}, edges: map[edge]edgeState{},
		loops: map[*ssa.BasicBlock]*loopInfo{}, params: map[string]Val{}, ghosts: map[string]Val{},
		anchors: map[string]int{}, declared: map[string]bool{}, abstracted: map[string]int{}, assumptions: map[string]bool{},
		callOrd: map[string]int{}, closureOf: map[*ssa.Alloc]*ssa.MakeClosure{}, callAsserts: map[int]int{}}
}

// verifyFunc generates all obligations of fn.
func (e *Engine) verifyFunc(fn *ssa.Function, fc *FuncContract) (c *FnCtx, err error) {
	c = e.newFnCtx(fn, fc)
	defer func() {
		if r := recover(); r != nil {
			switch r := r.(type) {
			case unsupportedErr:
				err = fmt.Errorf("%s: %v", fc.Key, r)
			case specErr:
				err = fmt.Errorf("%s: %v", fc.Key, r)
			default:
				panic(r)
			}
		}
	}()
	c.run()
	return c, nil
}

func (c *FnCtx) run() {
	fn := c.fn
	c.dynOn = c.eng.usesDyn(c.fc)
	st := &State{cells: map[*ssa.Alloc]Val{}, heap: map[string]string{}, reach: "true", ghostInts: map[string]string{}}
	for _, ct := range c.fc.Counters {
		st.ghostInts[ct[0]] = "0"
	}
	st.nextRef = c.declare("nextRef", sInt)
	c.assert(lt("1000", st.nextRef))
	// parameters
	for _, p := range fn.Params {
		v := c.freshVal(st, p.Type(), "p."+p.Name())
		c.vals[p] = v
		c.params[p.Name()] = v
	}
	for _, fv := range fn.FreeVars {
		// captured variable: pointer to a cell owned by the enclosing function
		v := c.freshVal(st, fv.Type(), "fv."+fv.Name())
		c.vals[fv] = v
		if p, ok := v.(VPtr); ok {
			if c.fvs == nil {
				c.fvs = map[string]VPtr{}
			}
			c.fvs[fv.Name()] = p
			// the cell exists: the enclosing function allocated it
			c.assume(st, lt("0", p.Ref))
		}
	}
	c.entry = st.clone()
	// result names
	c.results = c.fc.Returns
	if len(c.results) == 0 {
		res := fn.Signature.Results()
		for i := 0; i < res.Len(); i++ {
			n := res.At(i).Name()
			if n == "" || n == "_" {
				if res.Len() == 1 {
					n = "result"
				} else {
					n = fmt.Sprintf("result%d", i)
				}
			}
			c.results = append(c.results, n)
		}
	}
	// ghosts and preconditions
	penv := &Env{c: c, st: st, old: c.entry, vars: map[string]Val{}, fn: fn}
	for _, g := range c.fc.Ghosts {
		v := penv.eval(g.E)
		ts := flatten(v)
		ss := leafSorts(v)
		for i := range ts {
			ts[i] = c.define("g."+g.Name, ss[i], ts[i])
		}
		v, _ = rebuild(v, ts)
		c.ghosts[g.Name] = v
	}
	for _, cl := range c.fc.Clauses {
		if cl.Kind == "requires" {
			c.assume(st, penv.evalBool(cl.E))
		}
	}
	c.entry.reach = st.reach
	if c.fc.Refines != "" {
		ic := c.eng.cs.Funcs[c.fc.Refines]
		if ic == nil {
			panic(specErr{"refines: no contract for " + c.fc.Refines})
		}
		// the interface contract's ghosts and requires, evaluated on entry
		renv := &Env{c: c, st: c.entry, old: c.entry, vars: map[string]Val{}, fn: fn}
		for _, g := range ic.Ghosts {
			if _, dup := c.ghosts[g.Name]; !dup {
				c.ghosts[g.Name] = renv.eval(g.E)
			}
		}
		var hyp []string
		for _, cl := range ic.Clauses {
			if cl.Kind == "requires" {
				hyp = append(hyp, renv.evalBool(cl.E))
			}
		}
		c.refineHyp = c.define("iface.req", sBool, and(hyp...))
		c.refineOf = ic
	}
	c.findLoops()
	c.checkFrame()
	for _, cl := range c.fc.Clauses {
		if cl.Kind == "callsites" {
			want := strings.Join(strings.Fields(cl.At), "")
			n := 0
			for _, b := range fn.Blocks {
				for _, in := range b.Instrs {
					if call, ok := in.(*ssa.Call); ok && call.Pos().IsValid() && strings.HasPrefix(c.anchor(call), want) {
						n++
					}
				}
			}
			cond := "true"
			if n != cl.AtOrd {
				cond = "false"
			}
			o := c.obligeAlways(st, "count", "callsites:"+cl.At, fn.Pos(), cond,
				fmt.Sprintf("the body has exactly %d call sites starting with %q (found %d): the reviewed set of such sites is unchanged", cl.AtOrd, cl.At, n), cl.Tags)
			_ = o
		}
	}
	for _, cl := range c.fc.Clauses {
		if cl.Kind == "assert" || cl.Kind == "assume" || cl.Kind == "ghostat" || cl.Kind == "cover" || cl.Kind == "ghostset" {
			c.ghostAt = append(c.ghostAt, ghostClause{cl: cl})
		}
		if cl.Kind == "ghostat" {
			c.ghosts[cl.Name] = VInt{c.declare("g."+cl.Name, sInt)}
		}
	}

	if len(fn.Blocks) == 0 {
		return
	}
	order := c.rpo()
	c.edges[edge{nil, fn.Blocks[0]}] = edgeState{st: st, cond: st.reach}
	for _, b := range order {
		c.execBlock(b)
	}
	if c.wantsKind("conv") {
		n := 0
		for _, o := range c.obls {
			if o.Kind == "conv" {
				n++
			}
		}
		if n == 0 {
			c.obligeAlways(st, "conv", "none", fn.Pos(), "true", "the body contains no integer conversion that can change a value", nil)
		}
	}
	// every anchored clause must have found its source line: a contract that no
	// longer maps onto the code cannot be checked (reported, never skipped)
	for _, g := range c.ghostAt {
		if !g.done {
			what := g.cl.Kind
			panic(specErr{fmt.Sprintf("%s clause anchored at %q (occurrence %d) did not find that source line on any reachable path — the contract no longer maps onto the code", what, g.cl.At, g.cl.AtOrd)})
		}
	}
	for i, cl := range c.fc.Clauses {
		if cl.Kind == "assertcall" && c.callAsserts[i] == 0 {
			panic(specErr{fmt.Sprintf("assert atcall %q: no such call on any reachable path — the contract no longer maps onto the code", cl.At)})
		}
	}
	for _, cl := range c.fc.Clauses {
		if cl.Kind == "ensures" && cl.At != "" && !c.ensuresAtSeen[cl.At] {
			panic(specErr{fmt.Sprintf("ensures clause anchored at return %q did not find that return statement — the contract no longer maps onto the code", cl.At)})
		}
	}
}

// callSiteOrdinal: position (1-based, source order) of this call among the calls of the function
// whose source text starts with the prefix.
func (c *FnCtx) callSiteOrdinal(in *ssa.Call, prefix string) int {
	n := 1
	for _, b := range c.fn.Blocks {
		for _, x := range b.Instrs {
			if call, ok := x.(*ssa.Call); ok && call != in && call.Pos().IsValid() && call.Pos() < in.Pos() && strings.HasPrefix(c.anchor(call), prefix) {
				n++
			}
		}
	}
	return n
}

// rpo returns blocks in reverse post-order ignoring back edges.
func (c *FnCtx) rpo() []*ssa.BasicBlock {
	seen := map[*ssa.BasicBlock]bool{}
	var post []*ssa.BasicBlock
	var dfs func(b *ssa.BasicBlock)
	dfs = func(b *ssa.BasicBlock) {
		seen[b] = true
		for _, s := range b.Succs {
			if c.isBackEdge(b, s) || seen[s] {
				continue
			}
			dfs(s)
		}
		post = append(post, b)
	}
	dfs(c.fn.Blocks[0])
	for i, j := 0, len(post)-1; i < j; i, j = i+1, j-1 {
		post[i], post[j] = post[j], post[i]
	}
	return post
}

func (c *FnCtx) isBackEdge(from, to *ssa.BasicBlock) bool {
	return to.Dominates(from)
}

func (c *FnCtx) findLoops() {
	fn := c.fn
	var heads []*ssa.BasicBlock
	for _, b := range fn.Blocks {
		for _, s := range b.Succs {
			if c.isBackEdge(b, s) {
				li := c.loops[s]
				if li == nil {
					li = &loopInfo{head: s, blocks: map[*ssa.BasicBlock]bool{s: true}, cells: map[*ssa.Alloc]bool{}}
					c.loops[s] = li
					heads = append(heads, s)
				}
				// natural loop: nodes reaching b without passing through s
				var work []*ssa.BasicBlock
				if !li.blocks[b] {
					li.blocks[b] = true
					work = append(work, b)
				}
				for len(work) > 0 {
					x := work[len(work)-1]
					work = work[:len(work)-1]
					for _, p := range x.Preds {
						if !li.blocks[p] {
							li.blocks[p] = true
							work = append(work, p)
						}
					}
				}
			}
		}
	}
	sort.Slice(heads, func(i, j int) bool { return heads[i].Index < heads[j].Index })
	for i, h := range heads {
		c.loops[h].ord = i + 1
	}
	// modified sets
	for _, li := range c.loops {
		pre := map[string]bool{}
		for b := range li.blocks {
			for _, in := range b.Instrs {
				c.staticWrites(in, li.cells, pre)
			}
		}
		for k := range pre {
			li.heapPre = append(li.heapPre, k)
		}
		sort.Strings(li.heapPre)
	}
	// sanity: every loop clause refers to an existing loop
	// A clause for a loop the function no longer has (the loop was refactored
	// away) is dropped: invariants are only ever assumed at their own loop head,
	// so dropping them removes assumptions and the function's postconditions
	// decide on their own whether the rewritten body still meets the contract.
	kept := c.fc.Clauses[:0:0]
	dropped := 0
	for _, cl := range c.fc.Clauses {
		if (cl.Kind == "invariant" || cl.Kind == "decreases" || cl.Kind == "unfold" || cl.Kind == "step") && (cl.Loop < 1 || cl.Loop > len(heads)) {
			dropped++
			continue
		}
		kept = append(kept, cl)
	}
	if dropped > 0 {
		fc2 := *c.fc
		fc2.Clauses = kept
		c.fc = &fc2
		fmt.Fprintf(os.Stderr, "note: %s: %d clause(s) for loops that no longer exist ignored (function has %d loops)\n", c.fn.String(), dropped, len(heads))
	}
}

// rootAlloc finds the local cell an address is rooted in, if any.
func rootAlloc(v ssa.Value) *ssa.Alloc {
	for {
		switch x := v.(type) {
		case *ssa.Alloc:
			return x
		case *ssa.FieldAddr:
			v = x.X
		case *ssa.IndexAddr:
			if _, ok := x.X.Type().Underlying().(*types.Pointer); ok {
				v = x.X
			} else {
				return nil
			}
		default:
			return nil
		}
	}
}

// isLocalCell reports whether the Alloc is modelled as a versioned local.
func (c *FnCtx) isLocalCell(a *ssa.Alloc) bool {
	if _, isArr := a.Type().(*types.Pointer).Elem().Underlying().(*types.Array); isArr {
		return false
	}
	if !a.Heap {
		return true
	}
	// escaping per go/ssa: still local if only used by load/store/fieldaddr and
	// by closures that are only deferred or called in place.
	return c.onlyLocalUses(a, map[ssa.Value]bool{})
}

func (c *FnCtx) onlyLocalUses(v ssa.Value, seen map[ssa.Value]bool) bool {
	if seen[v] {
		return true
	}
	seen[v] = true
	refs := v.Referrers()
	if refs == nil {
		return false
	}
	for _, r := range *refs {
		switch r := r.(type) {
		case *ssa.UnOp:
			if r.Op != token.MUL {
				return false
			}
		case *ssa.Store:
			if r.Val == v {
				return false
			}
		case *ssa.FieldAddr:
			if !c.onlyLocalUses(r, seen) {
				return false
			}
		case *ssa.DebugRef:
		case *ssa.MakeClosure:
			// closure must be only deferred / called directly
			crefs := r.Referrers()
			if crefs == nil {
				return false
			}
			for _, cr := range *crefs {
				switch cr := cr.(type) {
				case *ssa.Defer:
					if cr.Call.Value != r {
						return false
					}
				case *ssa.DebugRef:
				case *ssa.Store:
					// closure kept in a local variable that is only ever called, and that only reads
					// this captured variable: the variable stays a versioned local
					if cr.Val != r || !closureVarOnlyCalled(cr.Addr) || !closureReadsOnly(r, v) {
						return false
					}
				default:
					return false
				}
			}
		default:
			return false
		}
	}
	return true
}

func (c *FnCtx) staticWrites(in ssa.Instruction, cells map[*ssa.Alloc]bool, pre map[string]bool) {
	switch in := in.(type) {
	case *ssa.Store:
		if a := rootAlloc(in.Addr); a != nil && c.isLocalCell(a) {
			cells[a] = true
			return
		}
		pre[c.staticFamily(in.Addr)] = true
	case *ssa.Alloc:
		if c.isLocalCell(in) {
			cells[in] = true // re-initialised on every iteration
		}
	case *ssa.MapUpdate:
		pre["M$"] = true
	case *ssa.Next:
		if rng, ok := in.Iter.(*ssa.Range); ok {
			if mt := mapTypeOf(rng.X.Type()); mt != nil && c.mapKeyOK(mt) {
				pre[c.rngFam(rng)] = true
			}
		}
	case *ssa.Call:
		for _, p := range c.callWrites(&in.Call) {
			pre[p] = true
		}
	case *ssa.Defer, *ssa.Go:
		pre[""] = true
	}
}

func (c *FnCtx) staticFamily(addr ssa.Value) string {
	switch a := addr.(type) {
	case *ssa.FieldAddr:
		st := a.X.Type().Underlying().(*types.Pointer).Elem()
		f := st.Underlying().(*types.Struct).Field(a.Field)
		if inner, ok := a.X.(*ssa.IndexAddr); ok {
			// field of an element
			return c.staticFamily(inner) + "." + f.Name()
		}
		if inner, ok := a.X.(*ssa.FieldAddr); ok {
			return c.staticFamily(inner) + "." + f.Name()
		}
		return "F$" + typeName(st) + "." + f.Name()
	case *ssa.IndexAddr:
		switch t := a.X.Type().Underlying().(type) {
		case *types.Slice:
			return "E$" + typeName(t.Elem())
		case *types.Pointer:
			return "E$" + typeName(t.Elem().Underlying().(*types.Array).Elem())
		}
	case *ssa.Global:
		return "G$" + a.Pkg.Pkg.Name() + "." + a.Name()
	case *ssa.Alloc:
		t := a.Type().(*types.Pointer).Elem()
		if _, ok := t.Underlying().(*types.Struct); ok {
			return "F$" + typeName(t)
		}
		return "C$" + typeName(t)
	}
	t := addr.Type().Underlying().(*types.Pointer).Elem()
	if _, ok := t.Underlying().(*types.Struct); ok {
		return "F$" + typeName(t)
	}
	return "C$" + typeName(t)
}

// ---------------------------------------------------------------------------

func (c *FnCtx) mergeIn(b *ssa.BasicBlock) *State {
	var ins []edgeState
	if b == c.fn.Blocks[0] {
		ins = append(ins, c.edges[edge{nil, b}])
	}
	for _, p := range b.Preds {
		if c.isBackEdge(p, b) {
			continue
		}
		if es, ok := c.edges[edge{p, b}]; ok {
			ins = append(ins, es)
		}
	}
	if len(ins) == 0 {
		return nil
	}
	if len(ins) == 1 {
		st := ins[0].st.clone()
		st.reach = ins[0].cond
		return st
	}
	st := &State{cells: map[*ssa.Alloc]Val{}, heap: map[string]string{}}
	var conds []string
	for _, es := range ins {
		conds = append(conds, es.cond)
	}
	st.reach = c.define("reach", sBool, or(conds...))
	// cells
	keys := map[*ssa.Alloc]bool{}
	for _, es := range ins {
		for k := range es.st.cells {
			keys[k] = true
		}
	}
	for _, k := range c.sortedAllocs(keys) {
		var vs []Val
		for _, es := range ins {
			v, ok := es.st.cells[k]
			if !ok {
				v = c.zeroVal(k.Type().(*types.Pointer).Elem())
			}
			vs = append(vs, v)
		}
		st.cells[k] = c.mergeVals(vs, conds, k.Comment)
	}
	// heap
	sameEpochs := true
	for _, es := range ins[1:] {
		if fmt.Sprint(es.st.epochs) != fmt.Sprint(ins[0].st.epochs) {
			sameEpochs = false
		}
	}
	hkeys := map[string]bool{}
	for _, es := range ins {
		for k := range es.st.heap {
			hkeys[k] = true
		}
	}
	for _, k := range sortedKeys(hkeys) {
		sort := c.eng.heapSorts[k]
		var ts []string
		for _, es := range ins {
			ts = append(ts, c.heapGet(es.st, k, sort))
		}
		st.heap[k] = c.mergeTerms(ts, conds, sort, "H."+k)
	}
	if sameEpochs {
		st.epochs = append([]epochRec(nil), ins[0].st.epochs...)
	} else {
		c.nfresh++
		st.epochs = []epochRec{{prefix: "", id: c.nfresh}}
	}
	st.facts = map[string]bool{}
	for f := range ins[0].st.facts {
		all := true
		for _, es := range ins[1:] {
			if !es.st.facts[f] {
				all = false
				break
			}
		}
		if all {
			st.facts[f] = true
		}
	}
	st.ghostInts = map[string]string{}
	for _, ct := range c.fc.Counters {
		var ts []string
		for _, es := range ins {
			ts = append(ts, es.st.ghostInts[ct[0]])
		}
		st.ghostInts[ct[0]] = c.mergeTerms(ts, conds, sInt, "cnt."+ct[0])
	}
	var nrs []string
	for _, es := range ins {
		nrs = append(nrs, es.st.nextRef)
	}
	st.nextRef = c.mergeTerms(nrs, conds, sInt, "nextRef")
	return st
}

func (c *FnCtx) mergeTerms(ts, conds []string, sort, hint string) string {
	same := true
	for _, t := range ts[1:] {
		if t != ts[0] {
			same = false
		}
	}
	if same {
		return ts[0]
	}
	out := ts[len(ts)-1]
	for i := len(ts) - 2; i >= 0; i-- {
		out = ite(conds[i], ts[i], out)
	}
	return c.define(hint, sort, out)
}

func (c *FnCtx) mergeVals(vs []Val, conds []string, hint string) Val {
	// interior pointers and nil-vs-non-nil shape differences are merged leafwise
	protoIdx := 0
	for i, v := range vs {
		if v != nil {
			protoIdx = i
			break
		}
	}
	proto := vs[protoIdx]
	if proto == nil {
		return nil
	}
	if p, ok := proto.(VPtr); ok && (p.Root != rootObj || len(p.Path) > 0) {
		for _, v := range vs {
			if fmt.Sprint(v) != fmt.Sprint(proto) {
				panic(unsupported("merge of distinct interior pointers"))
			}
		}
		return proto
	}
	flat := make([][]string, len(vs))
	for i, v := range vs {
		flat[i] = flatten(v)
		if len(flat[i]) != len(flat[protoIdx]) {
			panic(unsupported("merge of differently shaped values"))
		}
	}
	sorts := leafSorts(proto)
	out := make([]string, len(sorts))
	for j := range sorts {
		col := make([]string, len(vs))
		for i := range vs {
			col[i] = flat[i][j]
		}
		out[j] = c.mergeTerms(col, conds, sorts[j], "m."+hint)
	}
	v, _ := rebuild(proto, out)
	return v
}

func (c *FnCtx) loopClauses(li *loopInfo, kind string) []Clause {
	var out []Clause
	for _, cl := range c.fc.Clauses {
		if cl.Kind == kind && cl.Loop == li.ord {
			out = append(out, cl)
		}
	}
	return out
}

func (c *FnCtx) loopEnv(st *State) *Env {
	return &Env{c: c, st: st, old: c.entry, vars: map[string]Val{}, cells: true, fn: c.fn}
}

func (c *FnCtx) execBlock(b *ssa.BasicBlock) {
	st := c.mergeIn(b)
	if st == nil {
		return // unreachable
	}
	c.lastLine = -1
	if li := c.loops[b]; li != nil {
		// establish invariants
		env := c.loopEnv(st)
		invs := c.loopClauses(li, "invariant")
		for i, cl := range invs {
			name := cl.Name
			if name == "" {
				name = fmt.Sprint(i + 1)
			}
			c.oblige(st, "inv.init", fmt.Sprintf("L%d.%s", li.ord, name), b.Instrs[0].Pos(), env.evalBool(cl.E),
				fmt.Sprintf("loop %d invariant holds on entry: %s", li.ord, cl.Text), cl.Tags)
		}
		// havoc
		pre := st.clone()
		var first []string
		for _, ct := range c.fc.Counters {
			// only counters of calls that occur inside the loop change there
			inLoop := false
			want := strings.Join(strings.Fields(ct[1]), "")
			for lb := range li.blocks {
				for _, lin := range lb.Instrs {
					if call, ok := lin.(*ssa.Call); ok && call.Pos().IsValid() && strings.HasPrefix(c.anchor(call), want) {
						inLoop = true
					}
				}
			}
			if !inLoop {
				continue
			}
			nv := c.declare("cnt."+ct[0], sInt)
			c.assert(le(st.ghostInts[ct[0]], nv))
			first = append(first, eq(st.ghostInts[ct[0]], nv))
			st.ghostInts[ct[0]] = nv
		}
		for _, a := range c.sortedAllocs(li.cells) {
			if old, ok := st.cells[a]; ok {
				st.cells[a] = c.freshVal(st, a.Type().(*types.Pointer).Elem(), "h."+a.Comment)
				fo, fn := flatten(old), flatten(st.cells[a])
				for i := range fo {
					first = append(first, eq(fo[i], fn[i]))
				}
			}
		}
		for _, p := range li.heapPre {
			if c.freshFamily(p) {
				// every write into these families targets an object allocated by this call (checked at
				// each store and call): what existed at entry still has its entry contents
				c.havocHeapFreshFrom(st, p, c.entry)
			} else {
				c.havocHeap(st, p)
			}
		}
		for _, name := range sortedKeys(pre.heap) {
			for _, p := range li.heapPre {
				if strings.HasPrefix(name, p) {
					first = append(first, eq(pre.heap[name], c.heapGet(st, name, c.eng.heapSorts[name])))
					break
				}
			}
		}
		if len(li.heapPre) > 0 {
			// allocations inside the loop advance the counter
			nr := c.declare("nextRef", sInt)
			c.assert(le(st.nextRef, nr))
			first = append(first, eq(st.nextRef, nr))
			st.nextRef = nr
		}
		// "this is the first iteration": used only to look for replayable counterexamples
		c.firstIter = append(c.firstIter, and(first...))
		env = c.loopEnv(st)
		for _, cl := range invs {
			c.assume(st, env.evalBool(cl.E))
		}
		for _, cl := range c.loopClauses(li, "decreases") {
			li.variant = append(li.variant, c.define("variant", sInt, env.evalInt(cl.E)))
		}
		for _, cl := range c.loopClauses(li, "unfold") {
			env.eval(cl.E) // ground applications of recursive spec functions get their unfolding instance
		}
		li.headSt = st.clone()
	}
	for _, in := range b.Instrs {
		if c.execInstr(st, b, in) {
			return
		}
	}
}

func (c *FnCtx) flow(st *State, from, to *ssa.BasicBlock, cond string) {
	full := and(st.reach, cond)
	if c.isBackEdge(from, to) {
		li := c.loops[to]
		bst := st.clone()
		bst.reach = c.define("reach", sBool, full)
		env := c.loopEnv(bst)
		// back edges are told apart by the last source line executed before them
		via := ""
		for k := len(from.Instrs) - 1; k >= 0 && via == ""; k-- {
			if p := from.Instrs[k].Pos(); p.IsValid() {
				via = "@" + c.eng.srcLine(p)
			}
		}
		if len(to.Preds) <= 2 {
			via = ""
		}
		for i, cl := range c.loopClauses(li, "invariant") {
			name := cl.Name
			if name == "" {
				name = fmt.Sprint(i + 1)
			}
			name += via
			c.oblige(bst, "inv.keep", fmt.Sprintf("L%d.%s", li.ord, name), from.Instrs[len(from.Instrs)-1].Pos(), env.evalBool(cl.E),
				fmt.Sprintf("loop %d invariant preserved: %s", li.ord, cl.Text), cl.Tags)
		}
		for i, cl := range c.loopClauses(li, "step") {
			name := cl.Name
			if name == "" {
				name = fmt.Sprint(i + 1)
			}
			senv := c.loopEnv(bst)
			senv.prev = li.headSt
			name += via
			c.oblige(bst, "step", fmt.Sprintf("L%d.%s", li.ord, name), from.Instrs[len(from.Instrs)-1].Pos(), senv.evalBool(cl.E),
				fmt.Sprintf("loop %d iteration contract: %s", li.ord, cl.Text), cl.Tags)
		}
		decs := c.loopClauses(li, "decreases")
		if len(decs) == 0 {
			c.note("loop %d: termination not proved (no decreases clause)", li.ord)
		}
		for i, cl := range decs {
			v := env.evalInt(cl.E)
			o := c.oblige(bst, "dec", fmt.Sprintf("L%d%s", li.ord, via), token.NoPos, and(le("0", li.variant[i]), lt(v, li.variant[i])),
				fmt.Sprintf("loop %d variant decreases: %s", li.ord, cl.Text), cl.Tags)
			if o == nil {
				continue
			}
			if cl.Only != "" {
				o.allow[cl.Only] = true
				c.assumptions["termination of loop "+fmt.Sprint(li.ord)+" assumes "+cl.Only] = true
			} else {
				delete(o.allow, "ReaderProgress")
			}
		}
		return
	}
	c.edges[edge{from, to}] = edgeState{st: st, cond: c.define("edge", sBool, full)}
}

// ghostAsserts fires the assert/assume clauses anchored at the source line of in.
func (c *FnCtx) ghostAsserts(st *State, in ssa.Instruction) {
	if len(c.ghostAt) == 0 {
		return
	}
	switch in.(type) {
	case *ssa.DebugRef, *ssa.Phi:
		return
	}
	pos := in.Pos()
	if !pos.IsValid() {
		return
	}
	p := c.eng.prog.Fset.Position(pos)
	if p.Line == c.lastLine {
		return
	}
	c.lastLine = p.Line
	text := c.eng.srcLine(pos)
	for i := range c.ghostAt {
		g := &c.ghostAt[i]
		if g.cl.At != text || g.done {
			continue
		}
		// the k-th occurrence of the anchor text in source order
		if g.line == 0 {
			g.line = -1
			k := 0
			first := c.eng.prog.Fset.Position(c.fn.Pos()).Line
			last := first
			if syn := c.fn.Syntax(); syn != nil {
				last = c.eng.prog.Fset.Position(syn.End()).Line
			}
			lines := c.eng.srcLines[p.Filename]
			for ln := first; ln <= last && ln-1 < len(lines); ln++ {
				t := lines[ln-1]
				if j := strings.Index(t, " //"); j >= 0 && !strings.Contains(t[j:], "\"") {
					t = t[:j]
				}
				if strings.Join(strings.Fields(t), " ") == g.cl.At {
					k++
					if k == g.cl.AtOrd {
						g.line = ln
					}
				}
			}
		}
		if g.line != p.Line {
			continue
		}
		g.done = true
		env := c.loopEnv(st)
		if g.cl.Kind == "ghostset" {
			if g.cl.Target.Fn == "gf" {
				fam := "G$gf." + g.cl.Target.Args[1].(EStr).V
				obj, val := env.evalInt(g.cl.Target.Args[0]), env.evalInt(g.cl.E)
				c.heapSet(st, fam, arrSort(sInt), sto(c.heapGet(st, fam, arrSort(sInt)), obj, val))
				continue
			}
			fam := "G$gfa." + g.cl.Target.Args[1].(EStr).V
			obj, idx, val := env.evalInt(g.cl.Target.Args[0]), env.evalInt(g.cl.Target.Args[2]), env.evalInt(g.cl.E)
			ms := mapSort(2, sInt)
			c.heapSet(st, fam, ms, stoN(c.heapGet(st, fam, ms), []string{obj, idx}, val))
			continue
		}
		if g.cl.Kind == "ghostat" {
			v := env.eval(g.cl.E)
			if iv, ok := v.(VInt); ok {
				// the ghost variable is a constant fixed on the paths through this line
				c.assume(st, eq(c.ghosts[g.cl.Name].(VInt).T, iv.T))
				continue
			}
			// composite ghost (e.g. a slice value): a snapshot usable after this point
			ts, ss := flatten(v), leafSorts(v)
			for i := range ts {
				ts[i] = c.define("g."+g.cl.Name, ss[i], ts[i])
			}
			v, _ = rebuild(v, ts)
			c.ghosts[g.cl.Name] = v
			continue
		}
		cond := env.evalBool(g.cl.E)
		name := g.cl.Name
		if name == "" {
			name = g.cl.At
		}
		if g.cl.Kind == "cover" {
			// reachability with a non-degenerate state: must be satisfiable (guards against vacuous assumptions)
			c.vacuity = append(c.vacuity, &vacuityCheck{what: "cover " + name + ": " + g.cl.Text, cmdN: len(c.cmds), reach: and(st.reach, cond)})
			continue
		}
		if g.cl.Kind == "assert" {
			c.obligeAlways(st, "ghost", name, pos, cond, "ghost assertion: "+g.cl.Text, g.cl.Tags)
		} else {
			c.assumptions["assumed at \""+g.cl.At+"\": "+g.cl.Text] = true
		}
		c.assume(st, cond)
	}
}

// execInstr returns true when the block is finished.
func (c *FnCtx) execInstr(st *State, b *ssa.BasicBlock, in ssa.Instruction) bool {
	c.curInstr = in
	c.ghostAsserts(st, in)
	switch in := in.(type) {
	case *ssa.DebugRef:
		return false
	case *ssa.Alloc:
		c.execAlloc(st, in)
	case *ssa.Store:
		p := c.ptrOf(c.val(st, in.Addr))
		c.nilCheck(st, p, in, "store target")
		c.store(st, p, c.val(st, in.Val))
	case *ssa.UnOp:
		c.vals[in] = c.execUnOp(st, in)
	case *ssa.BinOp:
		c.vals[in] = c.execBinOp(st, in)
	case *ssa.Convert:
		c.vals[in] = c.execConvert(st, in)
	case *ssa.ChangeType:
		c.vals[in] = c.val(st, in.X)
	case *ssa.ChangeInterface:
		c.vals[in] = c.val(st, in.X)
	case *ssa.MakeInterface:
		c.vals[in] = c.makeIface(st, in)
	case *ssa.FieldAddr:
		p := c.ptrOf(c.val(st, in.X))
		c.nilCheck(st, p, in, "pointer")
		np := p
		np.Path = append(append([]int(nil), p.Path...), in.Field)
		c.vals[in] = np
	case *ssa.Field:
		v := c.val(st, in.X)
		c.vals[in] = v.(VStruct).F[in.Field]
	case *ssa.IndexAddr:
		c.vals[in] = c.execIndexAddr(st, in)
	case *ssa.Index:
		c.vals[in] = c.execIndex(st, in)
	case *ssa.Slice:
		c.vals[in] = c.execSlice(st, in)
	case *ssa.Extract:
		c.vals[in] = c.val(st, in.Tuple).(VTuple).E[in.Index]
	case *ssa.Phi:
		var vs []Val
		var conds []string
		for i, p := range b.Preds {
			es, ok := c.edges[edge{p, b}]
			if !ok {
				continue
			}
			vs = append(vs, c.val(es.st, in.Edges[i]))
			conds = append(conds, es.cond)
		}
		if len(vs) == 0 {
			panic(unsupported("phi without reachable edges"))
		}
		c.vals[in] = c.mergeVals(vs, conds, "phi")
	case *ssa.Call:
		if in.Pos().IsValid() {
			for i := range c.fc.Clauses {
				cl := &c.fc.Clauses[i]
				if cl.Kind != "assertcall" || !strings.HasPrefix(c.anchor(in), cl.At) {
					continue
				}
				if cl.AtOrd > 0 && c.callSiteOrdinal(in, cl.At) != cl.AtOrd {
					continue
				}
				// a prefix that ends with "name(" speaks about calls of that function or method only
				// (x.Mutable(fd).Message() also starts with "x.Mutable(" but is a call of Message)
				if strings.HasSuffix(cl.At, "(") {
					nm := strings.TrimSuffix(cl.At, "(")
					if k := strings.LastIndexAny(nm, ".)]"); k >= 0 {
						nm = nm[k+1:]
					}
					callee := ""
					if in.Call.IsInvoke() {
						callee = in.Call.Method.Name()
					} else if f := in.Call.StaticCallee(); f != nil {
						callee = f.Name()
					}
					if nm != "" && callee != "" && !strings.Contains(callee, "$") && callee != nm {
						continue
					}
				}
				c.callAsserts[i]++
				name := cl.Name
				if name == "" {
					name = cl.At
				}
				// the call's arguments are visible as arg0, arg1, ... (receiver of an interface call excluded)
				env := c.loopEnv(st)
				avars := map[string]Val{}
				for k, a := range in.Call.Args {
					avars[fmt.Sprintf("arg%d", k)] = c.val(st, a)
				}
				env = env.with(avars)
				c.obligeAlways(st, "ghost", fmt.Sprintf("%s#%d", name, c.callAsserts[i]), in.Pos(), env.evalBool(cl.E), "ghost assertion before the call: "+cl.Text, cl.Tags)
			}
		}
		if len(c.fc.Counters) > 0 && in.Pos().IsValid() {
			txt := c.anchor(in)
			for _, ct := range c.fc.Counters {
				if strings.HasPrefix(txt, strings.Join(strings.Fields(ct[1]), "")) {
					st.ghostInts[ct[0]] = c.define("cnt."+ct[0], sInt, plus(st.ghostInts[ct[0]], "1"))
				}
			}
		}
		c.vals[in] = c.execCall(st, in, &in.Call)
		if c.noRet {
			c.noRet = false
			return true
		}
	case *ssa.MakeSlice:
		c.vals[in] = c.execMakeSlice(st, in)
	case *ssa.MakeMap:
		c.vals[in] = c.execMakeMap(st, in)
	case *ssa.MakeClosure:
		c.vals[in] = VOpaque{c.declare("closure", sInt)}
	case *ssa.TypeAssert:
		c.vals[in] = c.execTypeAssert(st, in)
	case *ssa.Lookup:
		c.vals[in] = c.execLookup(st, in)
	case *ssa.MapUpdate:
		c.execMapUpdate(st, in)
	case *ssa.Range:
		c.vals[in] = c.execRange(st, in)
	case *ssa.Next:
		c.vals[in] = c.execNext(st, in)
	case *ssa.Defer:
		c.abstracted["defer "+callName(&in.Call)]++
		// a deferred call runs once when the function returns: call counters count it where it is deferred
		if len(c.fc.Counters) > 0 && in.Call.Pos().IsValid() {
			// (only by counters that ask for it: the call prefix is written with its "defer")
			txt := "defer" + c.eng.srcText(in.Call.Pos(), in)
			for _, ct := range c.fc.Counters {
				if want := strings.Join(strings.Fields(ct[1]), ""); strings.HasPrefix(want, "defer") && strings.HasPrefix(txt, want) {
					st.ghostInts[ct[0]] = c.define("cnt."+ct[0], sInt, plus(st.ghostInts[ct[0]], "1"))
				}
			}
		}
	case *ssa.RunDefers:
	case *ssa.Go:
		c.abstracted["go "+callName(&in.Call)]++
		c.havocHeap(st, "")
	case *ssa.Panic:
		c.oblige(st, "panic", c.anchor(in), in.Pos(), "false", "explicit panic is unreachable", nil)
		return true
	case *ssa.Jump:
		c.flow(st, b, b.Succs[0], "true")
		return true
	case *ssa.If:
		cond := c.val(st, in.Cond).(VBool).T
		c.flow(st, b, b.Succs[0], cond)
		c.flow(st, b, b.Succs[1], not(cond))
		return true
	case *ssa.Return:
		c.execReturn(st, in)
		return true
	case *ssa.Select:
		c.abstracted["select"]++
		c.vals[in] = c.freshVal(st, in.Type(), "select")
	case *ssa.Send:
		c.abstracted["send"]++
	case *ssa.MakeChan:
		c.vals[in] = VInt{c.allocRef(st, "chan")}
	default:
		panic(unsupported("instruction %T (%s) at %s", in, in, c.eng.prog.Fset.Position(in.Pos())))
	}
	return false
}

// localClosure resolves the function value of a call to a closure made in the same
// function: called directly, or through a local variable that is assigned exactly once
// (the closure) and otherwise only loaded. An anonymous function without captured
// variables is a plain function value; it resolves the same way.
func localClosure(v ssa.Value) (fn *ssa.Function, bindings []ssa.Value) {
	asFn := func(x ssa.Value) (*ssa.Function, []ssa.Value, bool) {
		switch x := x.(type) {
		case *ssa.MakeClosure:
			return x.Fn.(*ssa.Function), x.Bindings, true
		case *ssa.Function:
			if x.Parent() != nil {
				return x, nil, true
			}
		}
		return nil, nil, false
	}
	if f, b, ok := asFn(v); ok {
		return f, b
	}
	u, ok := v.(*ssa.UnOp)
	if !ok || u.Op != token.MUL {
		return nil, nil
	}
	a, ok := u.X.(*ssa.Alloc)
	if !ok || a.Referrers() == nil {
		return nil, nil
	}
	for _, r := range *a.Referrers() {
		switch r := r.(type) {
		case *ssa.Store:
			f, b, ok := asFn(r.Val)
			if r.Addr != a || !ok || fn != nil {
				return nil, nil
			}
			fn, bindings = f, b
		case *ssa.UnOp:
			if r.Op != token.MUL {
				return nil, nil
			}
		case *ssa.DebugRef:
		default:
			return nil, nil
		}
	}
	return fn, bindings
}

func callName(cc *ssa.CallCommon) string {
	if !cc.IsInvoke() {
		if f, _ := localClosure(cc.Value); f != nil {
			return funcKey(f)
		}
	}
	if cc.IsInvoke() {
		return "(" + types.TypeString(cc.Value.Type(), shortQual) + ")." + cc.Method.Name()
	}
	if f := cc.StaticCallee(); f != nil {
		return funcKey(f)
	}
	if b, ok := cc.Value.(*ssa.Builtin); ok {
		return b.Name()
	}
	return "dynamic call"
}

func shortQual(p *types.Package) string {
	if p.Path() == "larking.io/larking" {
		return ""
	}
	return p.Name()
}

func funcKey(f *ssa.Function) string {
	s := f.String()
	s = strings.ReplaceAll(s, "larking.io/larking.", "")
	// shorten import paths to package names
	for {
		i := strings.LastIndex(s, "/")
		if i < 0 {
			break
		}
		j := i
		for j > 0 && !strings.ContainsRune("(* ", rune(s[j-1])) {
			j--
		}
		s = s[:j] + s[i+1:]
	}
	return s
}

func (c *FnCtx) allocRef(st *State, hint string) string {
	r := c.define("ref."+hint, sInt, st.nextRef)
	st.nextRef = c.define("nextRef", sInt, plus(st.nextRef, "1"))
	c.eng.knownNonNil[r] = true
	c.assert(lt("0", r))
	if c.dynOn {
		// every allocation gets a dynamic type tag; 0 = not one of the tracked struct types (overwritten by execAlloc)
		dm := c.heapGet(st, "G$dyn.type", arrSort(sInt))
		c.heapSet(st, "G$dyn.type", arrSort(sInt), sto(dm, r, "0"))
	}
	return r
}

func (c *FnCtx) execAlloc(st *State, in *ssa.Alloc) {
	t := in.Type().(*types.Pointer).Elem()
	if c.isLocalCell(in) {
		c.vals[in] = VPtr{Root: rootLocal, Alloc: in, T: t}
		st.cells[in] = c.zeroVal(t)
		return
	}
	r := c.allocRef(st, in.Comment)
	p := VPtr{Root: rootObj, Ref: r, T: t}
	c.vals[in] = p
	c.zeroInit(st, p, t)
	if tag := c.eng.dynTag(t); tag != "" && c.dynOn {
		dm := c.heapGet(st, "G$dyn.type", arrSort(sInt))
		c.heapSet(st, "G$dyn.type", arrSort(sInt), sto(dm, r, tag))
	}
	if types.TypeString(t, nil) == "strings.Builder" {
		lm := c.heapGet(st, "G$sb.len", arrSort(sInt))
		c.heapSet(st, "G$sb.len", arrSort(sInt), sto(lm, r, "0"))
	}
	if types.TypeString(t, nil) == "bytes.Buffer" {
		// the zero value of a bytes.Buffer is an empty buffer
		lm := c.heapGet(st, "G$buf.len", arrSort(sInt))
		c.heapSet(st, "G$buf.len", arrSort(sInt), sto(lm, r, "0"))
	}
}

// zeroInit writes zero values into a freshly allocated object.
func (c *FnCtx) zeroInit(st *State, p VPtr, t types.Type) {
	switch u := t.Underlying().(type) {
	case *types.Array:
		// element heap: all elements zero
		base := c.arrayBase(p)
		c.zeroElems(st, base, u.Elem())
	case *types.Struct:
		for i := 0; i < u.NumFields(); i++ {
			np := p
			np.Path = append(append([]int(nil), p.Path...), i)
			ft := u.Field(i).Type()
			if _, isArr := ft.Underlying().(*types.Array); isArr {
				c.zeroInit(st, np, ft)
				continue
			}
			c.store(st, np, c.zeroVal(ft))
		}
	default:
		c.store(st, p, c.zeroVal(t))
	}
}

func (c *FnCtx) zeroElems(st *State, base string, elem types.Type) {
	fam := "E$" + typeName(elem)
	var walk func(t types.Type, prefix string)
	walk = func(t types.Type, prefix string) {
		if s, ok := t.Underlying().(*types.Struct); ok {
			for i := 0; i < s.NumFields(); i++ {
				if _, isArr := s.Field(i).Type().Underlying().(*types.Array); isArr {
					continue
				}
				walk(s.Field(i).Type(), prefix+"."+s.Field(i).Name())
			}
			return
		}
		z := flatten(c.zeroVal(t))
		for i, l := range c.leavesOf(t) {
			ms := mapSort(2, l.sort)
			m := c.heapGet(st, prefix+l.suffix, ms)
			k := c.fresh("k")
			zarr := c.lambda("zero", l.sort, k, z[i])
			c.heapSet(st, prefix+l.suffix, ms, sto(m, base, zarr))
		}
	}
	walk(elem, fam)
}

func (c *FnCtx) val(st *State, v ssa.Value) Val {
	if x, ok := c.vals[v]; ok {
		return x
	}
	switch v := v.(type) {
	case *ssa.Const:
		return c.constVal(v)
	case *ssa.Global:
		return VPtr{Root: rootGlobal, Glob: v, T: v.Type().(*types.Pointer).Elem()}
	case *ssa.Function:
		return VOpaque{fmt.Sprint(c.eng.funcID(v))}
	case *ssa.Builtin:
		return VOpaque{"0"}
	}
	panic(unsupported("value %T %s has no symbolic value", v, v.Name()))
}

func (c *FnCtx) constVal(k *ssa.Const) Val {
	t := k.Type()
	if k.Value == nil {
		return c.zeroVal(t)
	}
	switch u := t.Underlying().(type) {
	case *types.Basic:
		switch {
		case u.Info()&types.IsInteger != 0:
			s, _ := constInt(k)
			return VInt{s}
		case u.Info()&types.IsBoolean != 0:
			if k.Value.String() == "true" {
				return VBool{"true"}
			}
			return VBool{"false"}
		case u.Info()&types.IsString != 0:
			return c.strConst(constantString(k))
		case u.Info()&types.IsFloat != 0:
			return VReal{realLit(k)}
		}
	}
	panic(unsupported("constant %s", k))
}

func (c *FnCtx) execUnOp(st *State, in *ssa.UnOp) Val {
	switch in.Op {
	case token.MUL: // load
		// loads from globals of other packages
		if g, ok := in.X.(*ssa.Global); ok {
			if v, ok := c.eng.globalValue(c, st, g); ok {
				return v
			}
		}
		p := c.ptrOf(c.val(st, in.X))
		c.nilCheck(st, p, in, "pointer")
		return c.load(st, p, in.Pos())
	case token.NOT:
		return VBool{not(c.val(st, in.X).(VBool).T)}
	case token.SUB:
		v := c.val(st, in.X)
		if r, ok := v.(VReal); ok {
			return VReal{app("-", r.T)}
		}
		return VInt{c.define(in.Name(), sInt, wrapAddSub(in.Type(), app("-", v.(VInt).T)))}
	case token.XOR:
		v := c.val(st, in.X).(VInt).T
		if isUnsigned(in.Type()) {
			_, hi := intRange(in.Type())
			return VInt{minus(hi, v)}
		}
		return VInt{minus(app("-", v), "1")}
	case token.ARROW:
		c.abstracted["channel receive"]++
		return c.freshVal(st, in.Type(), "recv")
	}
	panic(unsupported("unary %s", in.Op))
}

func (c *FnCtx) execBinOp(st *State, in *ssa.BinOp) Val {
	x, y := c.val(st, in.X), c.val(st, in.Y)
	xt := in.X.Type()
	switch in.Op {
	case token.EQL, token.NEQ:
		env := &Env{c: c, st: st, old: c.entry}
		r := env.valEq(x, y, EIdent{in.String()})
		if in.Op == token.NEQ {
			r = not(r)
		}
		return VBool{c.define(in.Name(), sBool, r)}
	case token.LSS, token.LEQ, token.GTR, token.GEQ:
		switch a := x.(type) {
		case VInt:
			return VBool{c.define(in.Name(), sBool, app(cmpOp(in.Op), a.T, y.(VInt).T))}
		case VReal:
			return VBool{c.define(in.Name(), sBool, app(cmpOp(in.Op), a.T, y.(VReal).T))}
		case VStr:
			b := y.(VStr)
			c.eng.needStrLess = true
			lt := app("strless", a.Arr, a.Off, a.Len, b.Arr, b.Off, b.Len)
			c.note("string ordering is uninterpreted")
			switch in.Op {
			case token.LSS:
				return VBool{lt}
			case token.GEQ:
				return VBool{not(lt)}
			}
		}
		panic(unsupported("comparison %s on %T", in.Op, x))
	}
	if isInteger(in.Type()) || isInteger(xt) {
		a, b := x.(VInt).T, y.(VInt).T
		return VInt{c.define(in.Name(), sInt, c.binopInt(in.Op, in.Type(), a, b, in, st))}
	}
	switch a := x.(type) {
	case VStr:
		if in.Op == token.ADD {
			b := y.(VStr)
			k := c.fresh("k")
			arr := c.lambda("cat", sInt, k, ite(lt(k, a.Len), strAt(a, k), strAt(b, minus(k, a.Len))))
			return VStr{arr, "0", c.define("catlen", sInt, plus(a.Len, b.Len))}
		}
	case VReal:
		b := y.(VReal)
		switch in.Op {
		case token.ADD:
			return VReal{c.define(in.Name(), sReal, app("+", a.T, b.T))}
		case token.SUB:
			return VReal{c.define(in.Name(), sReal, app("-", a.T, b.T))}
		case token.MUL:
			return VReal{c.define(in.Name(), sReal, app("*", a.T, b.T))}
		case token.QUO:
			return VReal{c.define(in.Name(), sReal, app("/", a.T, b.T))}
		}
	case VBool:
		b := y.(VBool)
		switch in.Op {
		case token.AND:
			return VBool{and(a.T, b.T)}
		case token.OR:
			return VBool{or(a.T, b.T)}
		}
	}
	panic(unsupported("binary %s on %T at %s", in.Op, x, c.eng.prog.Fset.Position(in.Pos())))
}

func (c *FnCtx) execConvert(st *State, in *ssa.Convert) Val {
	from, to := in.X.Type(), in.Type()
	x := c.val(st, in.X)
	switch {
	case isInteger(from) && isInteger(to):
		if c.wantsKind("conv") {
			// opt-in: an integer conversion keeps the value (no silent truncation or sign change)
			lo, hi := intRange(to)
			v := x.(VInt).T
			if flo, fhi := intRange(from); !(flo == lo && fhi == hi) && c.convertInt(from, to, v) != v {
				c.oblige(st, "conv", c.anchor(in), in.Pos(), and(le(lo, v), le(v, hi)), fmt.Sprintf("conversion %s -> %s keeps the value", from, to), nil)
			}
		}
		return VInt{c.define(in.Name(), sInt, c.convertInt(from, to, x.(VInt).T))}
	case isInteger(from) && isFloat(to):
		return VReal{app("to_real", x.(VInt).T)}
	case isFloat(from) && isFloat(to):
		if fb, ok := from.Underlying().(*types.Basic); ok && c.wantsKind("conv") {
			if tb, ok := to.Underlying().(*types.Basic); ok && fb.Kind() == types.Float64 && tb.Kind() == types.Float32 {
				// opt-in: floats are modelled as reals, "representable as float32" is not expressible: a reachable
				// narrowing conversion is reported (it rounds, and overflows to infinity beyond the float32 range)
				c.oblige(st, "conv", c.anchor(in), in.Pos(), "false", "conversion float64 -> float32 rounds the value and overflows to infinity beyond the float32 range", nil)
			}
		}
		return x
	case isFloat(from) && isInteger(to):
		if c.wantsKind("conv") {
			// opt-in: a float to integer conversion keeps the value only for an integral value in range
			lo, hi := intRange(to)
			r := x.(VReal).T
			c.oblige(st, "conv", c.anchor(in), in.Pos(), and(app("is_int", r), le(app("to_real", lo), r), le(r, app("to_real", hi))),
				fmt.Sprintf("conversion %s -> %s keeps the value (integral and in range)", from, to), nil)
		}
		c.note("float to integer conversion is approximated by floor")
		return VInt{c.define(in.Name(), sInt, app("to_int", x.(VReal).T))}
	case isString(from) && isByteSlice(to):
		s := x.(VStr)
		r := c.allocRef(st, "bytes")
		k := c.fresh("k")
		arr := c.lambda("cp", sInt, k, strAt(s, k))
		ms := mapSort(2, sInt)
		m := c.heapGet(st, "E$uint8", ms)
		c.heapSet(st, "E$uint8", ms, sto(m, r, arr))
		return VSlice{r, "0", s.Len, s.Len, to.Underlying().(*types.Slice).Elem(), ""}
	case isByteSlice(from) && isString(to):
		s := x.(VSlice)
		m := c.heapGet(st, "E$uint8", mapSort(2, sInt))
		arr := c.define("snap", sAI, sel(m, s.Base))
		return VStr{arr, s.Off, s.Len}
	case isInteger(from) && isString(to):
		c.note("string(rune) conversion is abstracted")
		return c.freshVal(st, to, "runestr")
	}
	// named string types etc.
	if isString(from) && isString(to) {
		return x
	}
	panic(unsupported("conversion %s -> %s", from, to))
}

// wantsKind: opt-in obligation kinds are generated only when the contract lists them ("partial ... conv").
func (c *FnCtx) wantsKind(k string) bool {
	for _, p := range c.fc.Partial {
		if p == k {
			return true
		}
	}
	return false
}

func isFloat(t types.Type) bool {
	b, ok := t.Underlying().(*types.Basic)
	return ok && b.Info()&types.IsFloat != 0
}
func isString(t types.Type) bool {
	b, ok := t.Underlying().(*types.Basic)
	return ok && b.Info()&types.IsString != 0
}
func isByteSlice(t types.Type) bool {
	s, ok := t.Underlying().(*types.Slice)
	if !ok {
		return false
	}
	b, ok := s.Elem().Underlying().(*types.Basic)
	return ok && b.Kind() == types.Uint8
}

func (c *FnCtx) makeIface(st *State, in *ssa.MakeInterface) Val {
	x := c.val(st, in.X)
	tid := fmt.Sprint(c.eng.typeID(in.X.Type()))
	var pay string
	switch v := x.(type) {
	case VInt:
		pay = v.T
	case VPtr:
		if v.Root == rootObj && len(v.Path) == 0 {
			pay = v.Ref
		}
	case VOpaque:
		pay = v.T
	}
	if pay == "" {
		// boxed composite: opaque but a function of nothing we track
		pay = c.declare("box", sInt)
		c.assert(lt("0", pay))
		c.eng.boxed[pay] = x
		c.boxLeaves(in.X.Type(), pay, x)
	}
	return VIface{tid, pay}
}

// boxLeaves ties the leaves of a composite value to its interface payload through one
// uninterpreted function per (type, leaf): unbox!T!i(pay) == leaf_i. Boxing asserts it for the
// boxed value, unboxing for the value it returns, so that a composite survives a merge of
// interface values and the contract (unbox(v, "T")) sees the value the code boxed.
func (c *FnCtx) boxLeaves(t types.Type, pay string, v Val) {
	leaves, sorts := flatten(v), leafSorts(v)
	if len(leaves) != len(sorts) {
		return
	}
	id := c.eng.typeID(t)
	for i := range leaves {
		fn := fmt.Sprintf("unbox!%d!%d", id, i)
		decl := fmt.Sprintf("(declare-fun %s (Int) %s)", fn, sorts[i])
		if old, dup := c.eng.ufDecls[fn]; dup && old != decl {
			return // the shape of this type's values is not uniform: keep them opaque
		}
		c.eng.ufDecls[fn] = decl
		c.assert(eq(app(fn, pay), leaves[i]))
	}
}

func (c *FnCtx) execIndexAddr(st *State, in *ssa.IndexAddr) Val {
	x := c.val(st, in.X)
	i := c.val(st, in.Index).(VInt).T
	switch t := in.X.Type().Underlying().(type) {
	case *types.Slice:
		s := x.(VSlice)
		c.oblige(st, "index", c.anchor(in), in.Pos(), and(le("0", i), lt(i, s.Len)), "index within slice length", nil)
		return VPtr{Root: rootElem, Ref: s.Base, Idx: c.define("idx", sInt, plus(s.Off, i)), T: t.Elem(), Reg: s.Reg}
	case *types.Pointer:
		arr := t.Elem().Underlying().(*types.Array)
		p := c.ptrOf(x)
		c.nilCheck(st, p, in, "array pointer")
		c.oblige(st, "index", c.anchor(in), in.Pos(), and(le("0", i), lt(i, fmt.Sprint(arr.Len()))), "index within array length", nil)
		return VPtr{Root: rootElem, Ref: c.arrayBase(p), Idx: i, T: arr.Elem()}
	}
	panic(unsupported("IndexAddr on %s", in.X.Type()))
}

func (c *FnCtx) execIndex(st *State, in *ssa.Index) Val {
	x := c.val(st, in.X)
	i := c.val(st, in.Index).(VInt).T
	switch v := x.(type) {
	case VStr:
		c.oblige(st, "index", c.anchor(in), in.Pos(), and(le("0", i), lt(i, v.Len)), "index within string length", nil)
		b := c.define(in.Name(), sInt, strAt(v, i))
		c.assert(and(le("0", b), le(b, "255")))
		return VInt{b}
	}
	panic(unsupported("Index on %T", x))
}

func (c *FnCtx) execSlice(st *State, in *ssa.Slice) Val {
	x := c.val(st, in.X)
	get := func(v ssa.Value, def string) string {
		if v == nil {
			return def
		}
		return c.val(st, v).(VInt).T
	}
	switch v := x.(type) {
	case VStr:
		lo, hi := get(in.Low, "0"), get(in.High, v.Len)
		c.oblige(st, "slice", c.anchor(in), in.Pos(), and(le("0", lo), le(lo, hi), le(hi, v.Len)), "string slice bounds", nil)
		return VStr{v.Arr, c.define("soff", sInt, plus(v.Off, lo)), c.define("slen", sInt, minus(hi, lo))}
	case VSlice:
		lo, hi, mx := get(in.Low, "0"), get(in.High, v.Len), get(in.Max, v.Cap)
		c.oblige(st, "slice", c.anchor(in), in.Pos(), and(le("0", lo), le(lo, hi), le(hi, mx), le(mx, v.Cap)), "slice bounds within capacity", nil)
		return VSlice{v.Base, c.define("soff", sInt, plus(v.Off, lo)), c.define("slen", sInt, minus(hi, lo)), c.define("scap", sInt, minus(mx, lo)), v.Elem, v.Reg}
	case VPtr:
		// pointer to array
		at, ok := in.X.Type().Underlying().(*types.Pointer).Elem().Underlying().(*types.Array)
		if !ok {
			break
		}
		c.nilCheck(st, v, in, "array pointer")
		n := fmt.Sprint(at.Len())
		lo, hi, mx := get(in.Low, "0"), get(in.High, n), get(in.Max, n)
		c.oblige(st, "slice", c.anchor(in), in.Pos(), and(le("0", lo), le(lo, hi), le(hi, mx), le(mx, n)), "array slice bounds", nil)
		return VSlice{c.arrayBase(v), lo, c.define("slen", sInt, minus(hi, lo)), c.define("scap", sInt, minus(mx, lo)), at.Elem(), ""}
	}
	panic(unsupported("Slice on %T", x))
}

func (c *FnCtx) execMakeSlice(st *State, in *ssa.MakeSlice) Val {
	l := c.val(st, in.Len).(VInt).T
	cp := c.val(st, in.Cap).(VInt).T
	c.oblige(st, "make", c.anchor(in), in.Pos(), and(le("0", l), le(l, cp)), "make: 0 <= len <= cap", nil)
	elem := in.Type().Underlying().(*types.Slice).Elem()
	r := c.allocRef(st, "mk")
	c.zeroElems(st, r, elem)
	return VSlice{r, "0", l, cp, elem, ""}
}

func (c *FnCtx) execTypeAssert(st *State, in *ssa.TypeAssert) Val {
	x := c.val(st, in.X).(VIface)
	var ok string
	var v Val
	if types.IsInterface(in.AssertedType) {
		ok = app(c.eng.implFn(in.AssertedType), x.Typ)
		v = VIface{ite(ok, x.Typ, "0"), ite(ok, x.Pay, "0")}
	} else {
		ok = eq(x.Typ, fmt.Sprint(c.eng.typeID(in.AssertedType)))
		v = c.unbox(st, x, in.AssertedType, ok)
	}
	ok = c.define("ok", sBool, ok)
	if in.CommaOk {
		return VTuple{E: []Val{v, VBool{ok}}}
	}
	c.oblige(st, "assert", c.anchor(in), in.Pos(), ok, "type assertion cannot fail", nil)
	c.assume(st, ok)
	return v
}

func (c *FnCtx) unbox(st *State, x VIface, t types.Type, ok string) Val {
	switch u := t.Underlying().(type) {
	case *types.Pointer:
		return VPtr{Root: rootObj, Ref: ite(ok, x.Pay, "0"), T: u.Elem()}
	case *types.Basic:
		if u.Info()&types.IsInteger != 0 {
			return VInt{ite(ok, x.Pay, "0")}
		}
	}
	if b, found := c.eng.boxed[x.Pay]; found {
		return b
	}
	// an opaque composite behind an interface value: one symbolic value per (payload term, type)
	// and function, so that the code and the contract (unbox(e, "T")) speak about the same value
	key := x.Pay + "|" + types.TypeString(t, nil)
	if c.unboxed == nil {
		c.unboxed = map[string]Val{}
	}
	if v, found := c.unboxed[key]; found {
		return v
	}
	v := c.freshVal(st, t, "unboxed")
	c.unboxed[key] = v
	c.boxLeaves(t, x.Pay, v)
	return v
}

func (c *FnCtx) execLookup(st *State, in *ssa.Lookup) Val {
	if s, ok := c.val(st, in.X).(VStr); ok {
		i := c.val(st, in.Index).(VInt).T
		c.oblige(st, "index", c.anchor(in), in.Pos(), and(le("0", i), lt(i, s.Len)), "index within string length", nil)
		return VInt{strAt(s, i)}
	}
	return c.mapLookup(st, in)
}

func (c *FnCtx) execReturn(st *State, in *ssa.Return) {
	c.retCount++
	c.vacuity = append(c.vacuity, &vacuityCheck{what: "return reachable: " + c.eng.srcLine(in.Pos()) + c.occurrence(in.Pos()), cmdN: len(c.cmds), reach: st.reach})
	vars := map[string]Val{}
	for i, r := range in.Results {
		if i < len(c.results) {
			vars[c.results[i]] = c.val(st, r)
		}
	}
	env := &Env{c: c, st: st, old: c.entry, vars: vars, fn: c.fn}
	if c.fc.Applies != "" && len(in.Results) == 1 && len(c.fn.Params) == 1 {
		// the function value of this function is axiomatised as the spec predicate: check the body against it
		want := env.eval(ECall{Fn: c.fc.Applies, Args: []Expr{EIdent{c.fn.Params[0].Name()}}}).(VBool).T
		got := c.val(st, in.Results[0]).(VBool).T
		c.oblige(st, "post", "applies@"+c.eng.srcLine(in.Pos()), in.Pos(), eq(got, want), "function computes exactly the spec predicate "+c.fc.Applies, nil)
	}
	n := 0
	for _, cl := range c.fc.Clauses {
		if cl.Kind != "ensures" {
			continue
		}
		n++
		name := cl.Name
		if name == "" {
			name = fmt.Sprint(n)
		}
		if cl.At != "" && cl.At != "*" && cl.At != c.eng.srcLine(in.Pos()) {
			continue
		}
		if cl.At != "" && cl.AtOrd > 0 && c.occurrence(in.Pos()) != fmt.Sprintf(" #%d", cl.AtOrd) {
			continue
		}
		penv := env
		if cl.At != "" {
			// clauses tied to one return statement may mention the locals in scope there
			e2 := *env
			e2.cells = true
			penv = &e2
		}
		if cl.At != "" && cl.AtOrd == 0 {
			// an anchor without ordinal names every return with that text; where a local the clause
			// mentions is not declared yet on the way to this return, the clause does not apply here
			// (it must apply at one of them: the anchor counts as seen only then)
			if !func() (ok bool) {
				defer func() {
					if r := recover(); r != nil {
						if se, is := r.(specErr); is && strings.Contains(se.msg, "unknown identifier") {
							ok = false
							return
						}
						panic(r)
					}
				}()
				penv.evalBool(cl.E)
				return true
			}() {
				continue
			}
		}
		if cl.At != "" {
			if c.ensuresAtSeen == nil {
				c.ensuresAtSeen = map[string]bool{}
			}
			c.ensuresAtSeen[cl.At] = true
		}
		if len(c.fc.Counters) > 0 {
			// call-count clauses often fold to true on a path; they are still obligations of that path
			c.obligeAlways(st, "post", name+"@"+c.eng.srcLine(in.Pos())+c.occurrence(in.Pos()), in.Pos(), penv.evalBool(cl.E), "postcondition: "+cl.Text, cl.Tags)
		} else {
			c.oblige(st, "post", name+"@"+c.eng.srcLine(in.Pos())+c.occurrence(in.Pos()), in.Pos(), penv.evalBool(cl.E), "postcondition: "+cl.Text, cl.Tags)
		}
	}
	if c.refineOf != nil {
		// behavioural subtyping: under the interface's precondition the implementation meets the interface's postconditions
		k := 0
		for _, cl := range c.refineOf.Clauses {
			if cl.Kind != "ensures" {
				continue
			}
			k++
			name := cl.Name
			if name == "" {
				name = fmt.Sprint(k)
			}
			c.oblige(st, "refines", name+"@"+c.eng.srcLine(in.Pos())+c.occurrence(in.Pos()), in.Pos(), implies(c.refineHyp, env.evalBool(cl.E)),
				"refines "+c.fc.Refines+": "+cl.Text, cl.Tags)
		}
	}
}

// occurrence returns " #k" when the source line at pos is the k-th of several identical lines in the function.
func (c *FnCtx) occurrence(pos token.Pos) string {
	if !pos.IsValid() || c.fn.Syntax() == nil {
		return ""
	}
	p := c.eng.prog.Fset.Position(pos)
	text := c.eng.srcLine(pos)
	first := c.eng.prog.Fset.Position(c.fn.Pos()).Line
	last := c.eng.prog.Fset.Position(c.fn.Syntax().End()).Line
	lines := c.eng.srcLines[p.Filename]
	k, mine, total := 0, 0, 0
	for ln := first; ln <= last && ln-1 < len(lines); ln++ {
		t := lines[ln-1]
		if j := strings.Index(t, " //"); j >= 0 && !strings.Contains(t[j:], "\"") {
			t = t[:j]
		}
		if strings.Join(strings.Fields(t), " ") == text {
			k++
			total++
			if ln == p.Line {
				mine = k
			}
		}
	}
	if total <= 1 {
		return ""
	}
	return fmt.Sprintf(" #%d", mine)
}

// checkFrame: every heap family the body may write (stores, built-ins, callee
// frames, library models) must be covered by the contract's modifies clause —
// callers havoc exactly that clause.
func (c *FnCtx) checkFrame() {
	if c.fc.IsPart {
		return // partial contracts are never used at call sites of verified code
	}
	cells := map[*ssa.Alloc]bool{}
	pre := map[string]bool{}
	for _, b := range c.fn.Blocks {
		for _, in := range b.Instrs {
			if _, isDefer := in.(*ssa.Defer); isDefer {
				continue // deferred calls are outside the caller-visible contract (stated assumption)
			}
			// writes into objects allocated by this very call are invisible to the caller
			if st, ok := in.(*ssa.Store); ok && freshRoot(st.Addr) {
				continue
			}
			if call, ok := in.(*ssa.Call); ok && !call.Call.IsInvoke() && len(call.Call.Args) > 0 && freshRoot(call.Call.Args[0]) {
				if c.eng.libFor(callName(&call.Call), &call.Call) != nil {
					continue
				}
			}
			c.frameOnly = true
			c.staticWrites(in, cells, pre)
			c.frameOnly = false
			if call, ok := in.(*ssa.Call); ok && len(c.fc.ModFresh) > 0 {
				c.frameOnly = true
				ws := c.callWrites(&call.Call)
				c.frameOnly = false
				for _, w := range ws {
					for _, f := range c.fc.ModFresh {
						if strings.HasPrefix(w, f) || strings.HasPrefix(f, w) {
							panic(specErr{fmt.Sprintf("modifies fresh %s: the call %s may write %q into objects that existed before this call", f, callName(&call.Call), w)})
						}
					}
				}
			}
		}
	}
	for _, cl := range c.fc.Clauses {
		if cl.Kind == "ghostset" {
			pre["G$"+cl.Target.Fn+"."+cl.Target.Args[1].(EStr).V] = true
			if len(c.loops) > 0 {
				panic(specErr{"ghost set in a function with loops is not supported"})
			}
		}
	}
	var missing []string
	for _, w := range sortedKeys(pre) {
		ok := false
		for _, m := range c.fc.Modifies {
			if strings.HasPrefix(w, m) {
				ok = true
			}
		}
		if w == "" && c.fc.IsPart {
			ok = true // partial contracts: abstracted calls are listed, the function is not called from verified code
		}
		if strings.HasPrefix(w, "G$rng.") {
			ok = true // the produced-keys set of a range over a map is local to this activation
		}
		if !ok {
			missing = append(missing, "\""+w+"\"")
		}
	}
	if len(missing) > 0 {
		if c.fc.Pure {
			panic(specErr{fmt.Sprintf("declared pure but may write heap families %s", strings.Join(missing, ", "))})
		}
		panic(specErr{fmt.Sprintf("modifies clause does not cover heap families written by the body: %s", strings.Join(missing, ", "))})
	}
}

// freshRoot: the address/slice is syntactically rooted in an allocation made by this function.
func freshRoot(v ssa.Value) bool {
	switch x := v.(type) {
	case *ssa.Alloc, *ssa.MakeSlice:
		return true
	case *ssa.FieldAddr:
		return freshRoot(x.X)
	case *ssa.IndexAddr:
		return freshRoot(x.X)
	case *ssa.Slice:
		return freshRoot(x.X)
	case *ssa.ChangeType:
		return freshRoot(x.X)
	}
	return false
}

// sortedAllocs orders cells by their position in the function (deterministic generation:
// the solver's behaviour depends on declaration order).
func (c *FnCtx) sortedAllocs(m map[*ssa.Alloc]bool) []*ssa.Alloc {
	if c.allocOrder == nil {
		c.allocOrder = map[*ssa.Alloc]int{}
		n := 0
		for _, b := range c.fn.Blocks {
			for _, in := range b.Instrs {
				if a, ok := in.(*ssa.Alloc); ok {
					c.allocOrder[a] = n
					n++
				}
			}
		}
	}
	out := make([]*ssa.Alloc, 0, len(m))
	for a := range m {
		out = append(out, a)
	}
	sort.Slice(out, func(i, j int) bool { return c.allocOrder[out[i]] < c.allocOrder[out[j]] })
	return out
}

// closureVarOnlyCalled: addr is a local variable holding a closure; every load of it is used as the
// function of a call and nothing else.
func closureVarOnlyCalled(addr ssa.Value) bool {
	a, ok := addr.(*ssa.Alloc)
	if !ok || a.Referrers() == nil {
		return false
	}
	for _, r := range *a.Referrers() {
		switch r := r.(type) {
		case *ssa.Store:
			if r.Addr != a {
				return false
			}
		case *ssa.DebugRef:
		case *ssa.UnOp:
			if r.Op != token.MUL || r.Referrers() == nil {
				return false
			}
			for _, u := range *r.Referrers() {
				switch u := u.(type) {
				case *ssa.Call:
					if u.Call.Value != r {
						return false
					}
				case *ssa.DebugRef:
				default:
					return false
				}
			}
		default:
			return false
		}
	}
	return true
}

// closureReadsOnly: inside the closure the captured variable bound to v is only loaded from
// (directly or through field addresses); it is never stored to, passed on or captured again.
func closureReadsOnly(mc *ssa.MakeClosure, v ssa.Value) bool {
	fn, ok := mc.Fn.(*ssa.Function)
	if !ok {
		return false
	}
	for i, b := range mc.Bindings {
		if b != v {
			continue
		}
		if i >= len(fn.FreeVars) {
			return false
		}
		var readOnly func(x ssa.Value) bool
		readOnly = func(x ssa.Value) bool {
			if x.Referrers() == nil {
				return false
			}
			for _, r := range *x.Referrers() {
				switch r := r.(type) {
				case *ssa.UnOp:
					if r.Op != token.MUL {
						return false
					}
				case *ssa.FieldAddr:
					if !readOnly(r) {
						return false
					}
				case *ssa.DebugRef:
				default:
					return false
				}
			}
			return true
		}
		if !readOnly(fn.FreeVars[i]) {
			return false
		}
	}
	return true
}
