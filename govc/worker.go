package main

// A small helper process that runs the solver commands. govc itself holds the
// whole SSA program in memory, which makes fork/exec slow; the worker is
// started before anything is loaded.

import (
	"bufio"
	"bytes"
	"context"
	"encoding/json"
	"os"
	"os/exec"
	"sync"
	"time"
)

type workReq struct {
	ID       int64    `json:"id"`
	Argv     []string `json:"argv"`
	TimeoutS int      `json:"timeout_s"`
	Cancel   bool     `json:"cancel,omitempty"`
}

type workResp struct {
	ID       int64   `json:"id"`
	Output   string  `json:"output"`
	TimeS    float64 `json:"time_s"`
	TimedOut bool    `json:"timed_out"`
}

func cmdWorker() int {
	in := bufio.NewReaderSize(os.Stdin, 1<<20)
	var mu sync.Mutex
	enc := json.NewEncoder(os.Stdout)
	cancels := map[int64]context.CancelFunc{}
	var cmu sync.Mutex
	dec := json.NewDecoder(in)
	for {
		var rq workReq
		if err := dec.Decode(&rq); err != nil {
			return 0
		}
		if rq.Cancel {
			cmu.Lock()
			if f := cancels[rq.ID]; f != nil {
				f()
			}
			cmu.Unlock()
			continue
		}
		ctx, cancel := context.WithTimeout(context.Background(), time.Duration(rq.TimeoutS)*time.Second)
		cmu.Lock()
		cancels[rq.ID] = cancel
		cmu.Unlock()
		go func(rq workReq) {
			defer cancel()
			cmd := exec.CommandContext(ctx, rq.Argv[0], rq.Argv[1:]...)
			var out bytes.Buffer
			cmd.Stdout = &out
			cmd.Stderr = &out
			t0 := time.Now()
			_ = cmd.Run()
			resp := workResp{ID: rq.ID, Output: out.String(), TimeS: time.Since(t0).Seconds(), TimedOut: ctx.Err() != nil}
			cmu.Lock()
			delete(cancels, rq.ID)
			cmu.Unlock()
			mu.Lock()
			enc.Encode(resp)
			mu.Unlock()
		}(rq)
	}
}

type workerClient struct {
	cmd     *exec.Cmd
	enc     *json.Encoder
	mu      sync.Mutex
	pending map[int64]chan workResp
	nextID  int64
}

var worker *workerClient

func startWorker() error {
	exe, err := os.Executable()
	if err != nil {
		return err
	}
	cmd := exec.Command(exe, "worker")
	stdin, err := cmd.StdinPipe()
	if err != nil {
		return err
	}
	stdout, err := cmd.StdoutPipe()
	if err != nil {
		return err
	}
	cmd.Stderr = os.Stderr
	if err := cmd.Start(); err != nil {
		return err
	}
	w := &workerClient{cmd: cmd, enc: json.NewEncoder(stdin), pending: map[int64]chan workResp{}}
	go func() {
		dec := json.NewDecoder(bufio.NewReaderSize(stdout, 1<<20))
		for {
			var r workResp
			if err := dec.Decode(&r); err != nil {
				return
			}
			w.mu.Lock()
			ch := w.pending[r.ID]
			delete(w.pending, r.ID)
			w.mu.Unlock()
			if ch != nil {
				ch <- r
			}
		}
	}()
	worker = w
	return nil
}

// run executes argv in the worker; ctx cancellation kills the process.
func (w *workerClient) run(ctx context.Context, argv []string, timeoutS int) workResp {
	ch := make(chan workResp, 1)
	w.mu.Lock()
	w.nextID++
	id := w.nextID
	w.pending[id] = ch
	w.enc.Encode(workReq{ID: id, Argv: argv, TimeoutS: timeoutS})
	w.mu.Unlock()
	select {
	case r := <-ch:
		return r
	case <-ctx.Done():
		w.mu.Lock()
		w.enc.Encode(workReq{ID: id, Cancel: true})
		w.mu.Unlock()
		r := <-ch
		r.TimedOut = true
		return r
	}
}
