package main

// Assumed contracts for dependencies ("library models"). Each model states in
// `desc` what is assumed; every use is listed in the evidence.

func init() {
	libModels = map[string]*libModel{}
	registerIOModels()
}
